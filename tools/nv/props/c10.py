"""C10 -- arguments are taken by value: no mutation of, or aliasing to, caller
objects."""
import copy
import warnings

import sys

import numpy as np

from .. import common, gen_all, curves, fits, m1

SITE = "nanite (argument passing)"

HEAD = """From Coq Require Import List Bool Arith.
From NV Require Import Model.Heap.
Import ListNotations.
Definition pair_eqb (a b : nat * nat) : bool := Nat.eqb (fst a) (fst b) && Nat.eqb (snd a) (snd b).
Fixpoint list_eqb {A} (e : A -> A -> bool) (a b : list A) : bool :=
  match a, b with
  | [], [] => true
  | x :: s, y :: t => e x y && list_eqb e s t
  | _, _ => false
  end.
Definition vals_eqb := list_eqb (list_eqb pair_eqb).
Definition agrees (ops : list op) (libv callv : list (list (nat * nat))) (sep : bool) : bool :=
  let w := run empty ops in
  vals_eqb (lib_values w) libv && vals_eqb (caller_values w) callv &&
  Bool.eqb (match shared w with [] => true | _ => false end) sep.
"""


# --------------------------------------------------------------------------
# object graphs
# --------------------------------------------------------------------------
def _containers():
    import lmfit
    return lmfit.Parameters, lmfit.Parameter


def is_node(o):
    P, p = _containers()
    return isinstance(o, (list, dict, set, tuple, np.ndarray, P, p))


def leaf(v):
    """canonical text of an immutable leaf: numbers by value (copy.deepcopy of
    lmfit parameters turns numpy scalars and ints into floats)"""
    import numbers
    if isinstance(v, (bool, np.bool_)):
        return "bool:%s" % bool(v)
    if isinstance(v, numbers.Real):
        return "num:%r" % float(v)
    return repr(v)


def pdesc(p):
    return ("P", p.name, leaf(p.value), leaf(p.min), leaf(p.max),
            bool(p.vary), p.expr)


def flatten(o, depth=0, out=None):
    """pre-order list of (python object, canonical digest string, depth) of the
    mutable/container nodes of an argument; immutable leaves are part of their
    parent's digest"""
    P, p = _containers()
    if out is None:
        out = []
    if isinstance(o, p):
        out.append((o, repr(pdesc(o)), depth))
    elif isinstance(o, np.ndarray):
        out.append((o, repr(("A", o.dtype.str, o.shape, o.tobytes().hex()
                             [:4000], hash(o.tobytes()))), depth))
    elif isinstance(o, dict):
        keys = list(o.keys())
        leaves = [(k, leaf(o[k])) for k in keys if not is_node(o[k])]
        out.append((o, repr((type(o).__name__, keys, leaves)), depth))
        for k in keys:
            if is_node(o[k]):
                flatten(o[k], depth + 1, out)
    elif isinstance(o, (list, tuple, set)):
        items = list(o)
        leaves = [(i, leaf(v)) for i, v in enumerate(items) if not is_node(v)]
        out.append((o, repr((type(o).__name__, len(items), leaves)), depth))
        for v in items:
            if is_node(v):
                flatten(v, depth + 1, out)
    else:
        out.append((o, repr(("leaf", repr(o))), depth))
    return out


def reach(o):
    return [n[0] for n in flatten(o)] if is_node(o) else []


def lib_roots(idnt):
    roots = {}
    for k, v in dict.items(idnt._fit_properties):
        if is_node(v):
            roots["fit_properties[%r]" % k] = v
    roots["preprocessing"] = idnt.preprocessing
    roots["preprocessing_options"] = idnt.preprocessing_options
    if idnt._rating is not None:
        roots["_rating"] = idnt._rating
    return roots


def aliases(idnt, held):
    """[(library path, caller name)] sharing an object (or array memory)"""
    out = []
    lib = {}
    for path, root in lib_roots(idnt).items():
        for n in reach(root):
            if isinstance(n, tuple):
                continue
            lib.setdefault(id(n), (path, n))
    for name, obj in held.items():
        for n in reach(obj):
            if isinstance(n, tuple):
                continue
            if id(n) in lib:
                out.append((lib[id(n)][0], name))
            elif isinstance(n, np.ndarray):
                for (path, m) in lib.values():
                    if isinstance(m, np.ndarray) and np.shares_memory(n, m):
                        out.append((path, name))
    return sorted(set(out))


def same(a, b):
    fa, fb = flatten(a), flatten(b)
    return [(d, k) for (_, d, k) in fa] == [(d, k) for (_, d, k) in fb]


# --------------------------------------------------------------------------
# mirror of a scenario in the Coq reference model
# --------------------------------------------------------------------------
class Mirror:
    def __init__(self, name):
        self.name = name
        self.next = 0
        self.cid = {}
        self.ops = []
        self.tab = {}
        self.caller, self.lib = [], []
        self.exprs = []

    def dig(self, s):
        return self.tab.setdefault(s, len(self.tab) + 1)

    def erase(self, o):
        return [(self.dig(d), k) for (_, d, k) in flatten(o)]

    def caller_new(self, o):
        nodes = flatten(o)
        for j, (py, d, k) in enumerate(nodes):
            self.cid[id(py)] = self.next + j
        self.ops.append("CallerNew [" + "; ".join(
            f"(0, {self.dig(d)}, {k})" for (_, d, k) in nodes) + "]")
        self.next += len(nodes)
        self.caller.append(o)
        return len(self.caller) - 1

    def call_store(self, k, libobj):
        self.ops.append(f"CallStore {k}")
        self.next += len(flatten(self.caller[k]))
        self.lib.append(libobj)
        return len(self.lib) - 1

    def call_return(self, j, ret):
        self.ops.append(f"CallReturn {j}")
        nodes = flatten(ret)
        for i, (py, d, k) in enumerate(nodes):
            self.cid[id(py)] = self.next + i
        self.next += len(flatten(self.lib[j]))
        self.caller.append(ret)
        return len(self.caller) - 1

    def snapshot(self):
        return {id(py): d for o in self.caller for (py, d, _) in flatten(o)}

    def edits(self, before):
        """emit Mutate ops for caller nodes whose digest changed (value
        edits; the shape must be unchanged)"""
        for o in self.caller:
            for (py, d, _) in flatten(o):
                if id(py) in before and before[id(py)] != d \
                        and id(py) in self.cid:
                    self.ops.append(f"Mutate {self.cid[id(py)]} "
                                    f"(fun _ => {self.dig(d)})")

    def observe(self, idnt, held, what):
        libv = [self.erase(o) for o in self.lib]
        callv = [self.erase(o) for o in self.caller]
        sep = not aliases(idnt, held)

        def vv(v):
            return "[" + "; ".join("[" + "; ".join(
                f"({a}, {b})" for a, b in o) + "]" for o in v) + "]"
        self.exprs.append((f"agrees [{'; '.join(self.ops)}] {vv(libv)} "
                           f"{vv(callv)} {'true' if sep else 'false'}",
                           f"{self.name}: {what}"))


# --------------------------------------------------------------------------
# scenarios
# --------------------------------------------------------------------------
PIPE = ["compute_tip_position", "correct_force_offset", "correct_tip_offset"]


def curve(seed=5):
    cols = m1.small_curve(seed, n_app=120, n_ret=60)
    return curves.make_indentation(cols)


def fitted_curve(seed=5, **kw):
    i = curve(seed)
    i.apply_preprocessing(list(PIPE))
    with warnings.catch_warnings():
        warnings.simplefilter("ignore")
        i.fit_model(model_key="hertz_para", **kw)
    return i


def outcome(idnt):
    fp = idnt.fit_properties
    out = {"hash": fp.get("hash"), "success": fp.get("success"),
           "pre": copy.deepcopy(idnt.preprocessing),
           "popts": copy.deepcopy(idnt.preprocessing_options)}
    pf = fp.get("params_fitted")
    out["params"] = None if pf is None else {
        k: (float(v.value), bool(v.vary)) for k, v in pf.items()}
    for c in ["force", "tip position", "fit", "fit range"]:
        out[c] = np.array(idnt[c], copy=True).tobytes() if c in idnt else None
    return out


def diff(a, b):
    return [k for k in a if not (a[k] == b[k] or (
        isinstance(a[k], float) and a[k] != a[k] and b[k] != b[k]))]


def unchanged(run, name, what, before, after, payload):
    """argument deep-compared with its snapshot"""
    if not same(before, after):
        run.failing(SITE, f"{name}|mutated:{what}",
                    f"{name}: the library modified the caller's {what}",
                    payload=payload, theorem="C10_no_mutation")
        return False
    return True


def no_alias(run, name, idnt, held, payload):
    al = aliases(idnt, held)
    if al:
        run.failing(SITE, f"{name}|alias:{al[0][0]}",
                    f"{name}: library state {al[0][0]} shares an object with "
                    f"the caller's {al[0][1]}", payload=payload,
                    theorem="C10_separation")
        return False
    return True


def edit_catalogue():
    """(name, kind, make argument, call, in-place edits)"""
    import lmfit

    def mk_params(idnt):
        return idnt.get_initial_fit_parameters(model_key="hertz_para")

    def e_param(field, name="E"):
        def f(p):
            if field == "value":
                p[name].value = float(p[name].value) * 1.37 + 1e-9
            elif field == "vary":
                p[name].vary = not p[name].vary
            elif field == "min":
                p[name].min = -5.0 if name != "E" else 1.0
            elif field == "max":
                p[name].max = 12345.0 if name == "E" else 1.0
            elif field == "set":
                p[name].set(value=float(p[name].value) * 0.5 + 2e-9)
            elif field == "expr":
                p["baseline"].expr = "E*1e-14"
        f.__name__ = f"{name}.{field}"
        return f
    cat = []
    pe = [e_param("value"), e_param("vary", "R"), e_param("min"),
          e_param("max"), e_param("set", "contact_point"),
          e_param("value", "baseline"), e_param("expr"),
          e_param("value", "nu")]
    cat.append(("fit_model(params_initial)", mk_params,
                lambda i, a, **kw: i.fit_model(params_initial=a, **kw), pe))

    def mk_pipe(idnt):
        return list(PIPE)

    def pe1(a):
        a.append("correct_split_approach_retract")

    def pe2(a):
        a.pop()

    def pe3(a):
        a[1], a[2] = a[2], a[1]
    cat.append(("apply_preprocessing(list)", mk_pipe,
                lambda i, a, **kw: i.apply_preprocessing(a), [pe1, pe2, pe3]))
    cat.append(("fit_model(preprocessing)", mk_pipe,
                lambda i, a, **kw: i.fit_model(preprocessing=a,
                                               model_key="hertz_para", **kw),
                [pe1, pe2, pe3]))

    def mk_opts(idnt):
        return {"correct_tip_offset": {"method": "deviation_from_baseline"}}

    def oe1(o):
        o["correct_tip_offset"]["method"] = "fit_constant_line"

    def oe2(o):
        o["correct_force_slope"] = {"region": "all", "strategy": "drift"}

    def oe3(o):
        del o["correct_tip_offset"]

    def oe4(o):
        o["correct_tip_offset"] = {"method": "frechet_direct_path"}
    cat.append(("apply_preprocessing(options)", mk_opts,
                lambda i, a, **kw: i.apply_preprocessing(list(PIPE), a),
                [oe1, oe2, oe3, oe4]))
    cat.append(("fit_model(preprocessing_options)", mk_opts,
                lambda i, a, **kw: i.fit_model(
                    preprocessing=list(PIPE), preprocessing_options=a,
                    model_key="hertz_para", **kw), [oe1, oe3, oe4]))

    def mk_range(idnt):
        return [-2e-6, 1e-6]

    def re1(r):
        r[0] = -1e-6

    def re2(r):
        r[1] = 5e-7

    def re3(r):
        r[0] = r[0] - 4e-9
    cat.append(("fit_model(range_x)", mk_range,
                lambda i, a, **kw: i.fit_model(range_x=a,
                                               model_key="hertz_para", **kw),
                [re1, re2, re3]))

    def mk_kws(idnt):
        return {"ftol": 1e-9}

    def ke1(k):
        k["ftol"] = 1e-3

    def ke2(k):
        k["xtol"] = 1e-4
    cat.append(("fit_model(method_kws)", mk_kws,
                lambda i, a, **kw: i.fit_model(method_kws=a,
                                               model_key="hertz_para", **kw),
                [ke1, ke2]))
    return cat


def twin_scenarios(run, mir_all):
    """call(obj); edit obj in place; call(obj) again  versus a twin curve with
    the same history whose second call gets a fresh equal-valued object"""
    fitkw = [dict(), dict(gcf_k=0.5), dict(range_type="relative cp",
                                           range_x=[-2e-6, 1e-6])]
    if run.tier != "quick":
        fitkw += [dict(gcf_k=2.0, range_type="relative cp",
                       range_x=[-2e-6, 1e-6]),
                  dict(optimal_fit_edelta=True, optimal_fit_num_samples=8,
                       gcf_k=0.5)]
    for name, mk, call, edits in edit_catalogue():
        for ei, edit in enumerate(edits):
            for ki, kw in enumerate(fitkw):
                if not name.startswith("fit_model(params") and ki:
                    continue
                if "range_x" in name and "range_x" in kw:
                    continue
                sc = f"{name}|{edit.__name__}|{sorted(kw.items())}"
                payload = {"kind": "twin", "api": name, "edit": ei, "kw": ki}
                run.case({"api": name, "edit": edit.__name__, "kw": kw},
                         kind="twin:" + name.split("(")[0])
                try:
                    one_twin(run, sc, mk, call, edit, kw, payload, mir_all)
                except BaseException as e:
                    if isinstance(e, (KeyboardInterrupt, SystemExit)):
                        raise
                    run.failing(SITE, sc + "|raised",
                                f"{sc}: raised {type(e).__name__}: {e}",
                                payload=payload)


def one_twin(run, sc, mk, call, edit, kw, payload, mir_all):
    with warnings.catch_warnings():
        warnings.simplefilter("ignore")
        a_idnt, b_idnt = curve(), curve()
        if "preprocessing" not in sc.split("|")[0]:
            a_idnt.apply_preprocessing(list(PIPE))
            b_idnt.apply_preprocessing(list(PIPE))
        arg = mk(a_idnt)
        arg_b = copy.deepcopy(arg)
        mir = Mirror(sc)
        k = mir.caller_new(arg)
        snap = copy.deepcopy(arg)
        call(a_idnt, arg, **kw)
        call(b_idnt, arg_b, **kw)
        unchanged(run, sc, "argument (first call)", snap, arg, payload)
        no_alias(run, sc, a_idnt, {"argument": arg}, payload)
        # which library object now holds the value?
        for path, root in lib_roots(a_idnt).items():
            if type(root) is type(arg) and same(root, arg):
                mir.call_store(k, root)
        mir.observe(a_idnt, {"argument": arg}, "after the first call")
        before = mir.snapshot()
        shape = [(id(py), kk) for (py, _, kk) in flatten(arg)]
        edit(arg)
        # only value edits of the same objects are mirrored in the model
        if [(id(py), kk) for (py, _, kk) in flatten(arg)] == shape:
            mir.edits(before)
            mir.observe(a_idnt, {"argument": arg}, "after the in-place edit")
            mir_all.append(mir)
        fresh = copy.deepcopy(arg)
        snap2 = copy.deepcopy(arg)
        call(a_idnt, arg, **kw)          # same object, edited in place
        call(b_idnt, fresh, **kw)        # fresh equal-valued object
        unchanged(run, sc, "argument (second call)", snap2, arg, payload)
        no_alias(run, sc, a_idnt, {"argument": arg}, payload)
        oa, ob = outcome(a_idnt), outcome(b_idnt)
        # ... and the same as for a curve that only ever saw the edited value
        d3 = []
        if sc.startswith(("fit_model(params_initial)",
                          "fit_model(method_kws)", "fit_model(range_x)")):
            # (the model is named first: naming it later would discard the
            # initial parameters given with the same call)
            c_idnt = curve()
            c_idnt.apply_preprocessing(list(PIPE))
            c_idnt.fit_properties["model_key"] = "hertz_para"
            call(c_idnt, copy.deepcopy(snap2), **kw)
            d3 = diff(oa, outcome(c_idnt))
        if d3:
            run.failing(SITE, sc + "|noticed",
                        f"{sc}: after the edited object was passed again the "
                        f"curve differs ({d3}) from a curve that was only "
                        "ever given the edited value: the change was not "
                        "noticed / results were not recomputed",
                        payload=payload, theorem="C10_by_value")
        d = diff(oa, ob)
        if d:
            run.failing(SITE, sc + "|by-value",
                        f"{sc}: passing the edited object again gives another "
                        f"outcome than a fresh equal-valued object ({d}): the "
                        "in-place change was not noticed", payload=payload,
                        theorem="C10_by_value")


def returned_objects(run, mir_all):
    """objects handed out by the library are detached from its state"""
    with warnings.catch_warnings():
        warnings.simplefilter("ignore")
        for nm, getter in [
            ("get_initial_fit_parameters()",
             lambda i: i.get_initial_fit_parameters()),
            ("get_initial_fit_parameters(model_key)",
             lambda i: i.get_initial_fit_parameters(model_key="hertz_para")),
        ]:
            for state in ("fitted", "preprocessed", "fitted-k"):
                sc = f"{nm}|{state}"
                payload = {"kind": "returned", "api": nm, "state": state}
                run.case({"api": nm, "state": state}, kind="returned")
                idnt = curve()
                idnt.apply_preprocessing(list(PIPE))
                if state.startswith("fitted"):
                    idnt.fit_model(model_key="hertz_para",
                                   **({"gcf_k": 0.5} if state == "fitted-k"
                                      else {}))
                ret = getter(idnt)
                ret2 = getter(idnt)
                if ret is ret2:
                    run.failing(SITE, sc + "|same-object",
                                f"{sc}: two calls return the same object",
                                payload=payload,
                                theorem="C10_returned_copy_detached")
                no_alias(run, sc, idnt, {"returned": ret}, payload)
                mir = Mirror(sc)
                stored = idnt.fit_properties.get("params_initial")
                if stored is not None and same(stored, ret):
                    # model: the stored parameters are a library object that
                    # the library once copied from a caller object
                    k0 = mir.caller_new(copy.deepcopy(stored))
                    j = mir.call_store(k0, stored)
                    mir.call_return(j, ret)
                    mir.observe(idnt, {"returned": ret}, "after the return")
                    before = mir.snapshot()
                ref = outcome(idnt)
                h0 = idnt.fit_properties.get("hash")
                ret["E"].value = 4321.0
                ret["contact_point"].vary = False
                if stored is not None and mir.ops:
                    mir.edits(before)
                    mir.observe(idnt, {"returned": ret}, "after editing the "
                                "returned object")
                    mir_all.append(mir)
                if idnt.fit_properties.get("hash") != h0 or \
                        diff(outcome(idnt), ref):
                    run.failing(SITE, sc + "|edit-reaches-state",
                                f"{sc}: editing the returned object changed "
                                "the curve's state", payload=payload,
                                theorem="C10_returned_copy_detached")
                # documented workflow: get, edit .value, fit -- twice
                twin = curve()
                twin.apply_preprocessing(list(PIPE))
                if state.startswith("fitted"):
                    twin.fit_model(model_key="hertz_para",
                                   **({"gcf_k": 0.5} if state == "fitted-k"
                                      else {}))
                kw = {"gcf_k": 0.5} if state == "fitted-k" else {}
                idnt.fit_model(params_initial=ret, model_key="hertz_para",
                               **kw)
                twin.fit_model(params_initial=copy.deepcopy(ret),
                               model_key="hertz_para", **kw)
                ret["E"].value = 987.0
                idnt.fit_model(params_initial=ret, model_key="hertz_para",
                               **kw)
                twin.fit_model(params_initial=copy.deepcopy(ret),
                               model_key="hertz_para", **kw)
                d = diff(outcome(idnt), outcome(twin))
                if d:
                    run.failing(SITE, sc + "|workflow",
                                f"{sc}: get parameters, edit .value, fit -- "
                                f"repeated on the same object differs from "
                                f"fresh objects ({d})", payload=payload,
                                theorem="C10_by_value")


def exposed_state(run):
    """objects the library hands out as public attributes (the remembered
    pipeline `idnt.preprocessing` / `idnt.preprocessing_options`): editing
    them in place and passing them again (or calling without arguments) must
    behave like fresh equal-valued arguments"""
    opts0 = {"correct_tip_offset": {"method": "deviation_from_baseline"}}

    def e_list(i):
        i.preprocessing.pop()

    def e_list2(i):
        i.preprocessing.append("correct_split_approach_retract")

    def e_opt(i):
        i.preprocessing_options["correct_tip_offset"]["method"] = \
            "fit_constant_line"

    def e_opt2(i):
        i.preprocessing_options["correct_tip_offset"] = {
            "method": "frechet_direct_path"}
    calls = {
        "apply_preprocessing()": lambda i, p, o: i.apply_preprocessing(),
        "apply_preprocessing(attrs)": lambda i, p, o: i.apply_preprocessing(
            preprocessing=p, options=o),
        "fit_model(attrs)": lambda i, p, o: i.fit_model(
            preprocessing=p, preprocessing_options=o, model_key="hertz_para"),
    }
    with warnings.catch_warnings():
        warnings.simplefilter("ignore")
        for ename, edit in [("pop step", e_list), ("append step", e_list2),
                            ("nested option", e_opt),
                            ("replace option dict", e_opt2)]:
            for cname, call in calls.items():
                for fit_between in (False, True):
                    sc = f"exposed|{ename}|{cname}|fit={fit_between}"
                    payload = {"kind": "exposed", "edit": ename,
                               "call": cname}
                    run.case({"exposed": ename, "call": cname,
                              "fit_between": fit_between}, kind="exposed")
                    a, b = curve(), curve()
                    for i in (a, b):
                        i.apply_preprocessing(list(PIPE),
                                              copy.deepcopy(opts0))
                        if fit_between:
                            i.fit_model(model_key="hertz_para")
                    try:
                        edit(a)
                        p_new = copy.deepcopy(a.preprocessing)
                        o_new = copy.deepcopy(a.preprocessing_options)
                        if cname == "apply_preprocessing()":
                            call(a, None, None)
                        else:
                            call(a, a.preprocessing, a.preprocessing_options)
                        calls[cname if cname != "apply_preprocessing()"
                              else "apply_preprocessing(attrs)"](
                            b, copy.deepcopy(p_new), copy.deepcopy(o_new))
                    except BaseException as e:
                        run.failing(SITE, sc + "|raised", f"{sc}: raised "
                                    f"{type(e).__name__}: {e}",
                                    payload=payload)
                        continue
                    d = diff(outcome(a), outcome(b))
                    if d:
                        run.failing(
                            SITE, sc + "|by-value",
                            f"{sc}: editing the remembered pipeline in place "
                            "and applying it again gives another outcome "
                            f"than fresh equal-valued arguments ({d})",
                            payload=payload, theorem="C10_by_value / "
                            "C10_returned_copy_detached")


def fitted_params_as_argument_cases(run):
    """a parameter set that comes out of a fit (it carries lmfit's
    statistics: stderr, correlations, initial values) handed on as the
    starting point of another fit: the caller's object keeps its complete
    state"""
    from nanite.fit import IndentationFitter

    def state(ps):
        return [(n_, repr(float(v.value)), v.vary, v.min, v.max, v.expr,
                 None if v.stderr is None else repr(float(v.stderr)),
                 None if v.correl is None else sorted(
                     (k_, repr(float(c_))) for k_, c_ in v.correl.items()),
                 None if v.init_value is None else repr(float(v.init_value)))
                for n_, v in ps.items()]
    with warnings.catch_warnings():
        warnings.simplefilter("ignore")
        for api in ("fit_model(other curve)", "fit_model(same curve)",
                    "IndentationFitter"):
            sc = f"fitted-params|{api}"
            payload = {"kind": "fitted-params", "api": api}
            run.case({"fitted-params": api}, kind="fitted-params")
            try:
                a = fitted_curve(5)
                pa = a.fit_properties["params_fitted"]
                has_stats = any(v.stderr is not None for v in pa.values())
                before = state(pa)
                if api == "fit_model(other curve)":
                    b = curve(6)
                    b.apply_preprocessing(list(PIPE))
                    b.fit_model(model_key="hertz_para", params_initial=pa)
                elif api == "fit_model(same curve)":
                    a.fit_model(params_initial=pa, weight_cp=0)
                else:
                    b = curve(6)
                    b.apply_preprocessing(list(PIPE))
                    IndentationFitter(b, model_key="hertz_para",
                                      params_initial=pa).fit()
                after = state(pa)
            except BaseException as e:
                run.failing(SITE, sc + "|raised", f"{sc}: raised "
                            f"{type(e).__name__}: {e}", payload=payload)
                continue
            if not has_stats:
                run.count("fitted-params-without-statistics")
            if after != before:
                ch = [b_[0] + ":" + ",".join(
                    nm for nm, x_, y_ in zip(
                        ("value", "vary", "min", "max", "expr", "stderr",
                         "correl", "init_value"), b_[1:], a_[1:]) if x_ != y_)
                    for b_, a_ in zip(before, after) if b_ != a_]
                run.failing(SITE, sc + "|mutated", f"{sc}: the parameter set "
                            f"handed over was modified ({'; '.join(ch)})",
                            payload=payload, theorem="C10_no_mutation")


def emptied_argument_cases(run):
    """an option dictionary / a step list passed once, emptied in place by the
    caller ("back to the defaults" / "back to the raw data") and passed again:
    the call behaves as for a fresh empty object on a fresh curve with the
    same first call, and as for a curve that only ever saw the empty value"""
    opts0 = {"correct_tip_offset": {"method": "fit_constant_line"}}
    calls = {
        "apply_preprocessing(options)": lambda i, p, o:
            i.apply_preprocessing(preprocessing=p, options=o),
        "fit_model(preprocessing_options)": lambda i, p, o: i.fit_model(
            preprocessing=p, preprocessing_options=o, model_key="hertz_para"),
    }
    with warnings.catch_warnings():
        warnings.simplefilter("ignore")
        for cname, call in calls.items():
            for what in ("options", "steps"):
                sc = f"emptied|{cname}|{what}"
                payload = {"kind": "emptied", "call": cname, "what": what}
                run.case({"emptied": what, "call": cname}, kind="emptied")
                try:
                    a, c = curve(), curve()
                    steps, opts = list(PIPE), copy.deepcopy(opts0)
                    call(a, steps, opts)
                    if what == "options":
                        opts.clear()
                    else:
                        del steps[1:]
                    call(a, steps, opts)
                    # a curve that only ever saw the final values
                    call(c, list(steps), copy.deepcopy(opts))
                    d = diff(outcome(a), outcome(c))
                    if cname.startswith("fit_model"):
                        # (the initial parameters guessed for the first
                        # call are remembered settings: the fit results may
                        # differ from a curve without that first call)
                        d = [x_ for x_ in d
                             if x_ not in ("hash", "params", "fit")]
                    rem = (list(a.preprocessing),
                           copy.deepcopy(a.preprocessing_options))
                except BaseException as e:
                    run.failing(SITE, sc + "|raised", f"{sc}: raised "
                                f"{type(e).__name__}: {e}", payload=payload)
                    continue
                if d:
                    run.failing(SITE, sc + "|noticed", f"{sc}: after the "
                                f"caller emptied the {what} in place and "
                                "passed them again the curve differs "
                                f"({d}) from a curve that was only ever "
                                "given the emptied value", payload=payload,
                                theorem="C10_by_value")
                elif rem != (list(steps), dict(opts)):
                    run.failing(SITE, sc + "|remembered", f"{sc}: the curve "
                                f"remembers {rem}, the last call passed "
                                f"({steps}, {opts})", payload=payload,
                                theorem="C10_by_value")


def rating_arguments(run):
    names = ["feat_con_apr_sum", "feat_con_idt_sum", "feat_con_apr_size",
             "feat_con_bln_slope"]
    with warnings.catch_warnings():
        warnings.simplefilter("ignore")
        from nanite.rate import IndentationRater
        # (regressors with and without the scaling step of the pipeline)
        for reg, what in [(r_, w_) for r_ in ("Decision Tree",
                                              "SVR (RBF kernel)",
                                              "SVR (linear kernel)")
                          for w_ in ("names", "training_set")]:
            sc = f"rate_quality({what}; {reg})"
            payload = {"kind": "rating", "what": what, "regressor": reg}
            run.case({"api": sc}, kind="rating")
            a_idnt, b_idnt = fitted_curve(6), fitted_curve(6)
            nm = list(names)
            X, y = IndentationRater.load_training_set(names=nm)
            ts = (X.copy(), y.copy())
            snap = (copy.deepcopy(nm), (ts[0].copy(), ts[1].copy()))
            kw = dict(regressor=reg, names=nm, training_set=ts)
            a_idnt.rate_quality(**kw)
            b_idnt.rate_quality(regressor=reg, names=list(nm),
                                training_set=(X.copy(), y.copy()))
            ok = (nm == snap[0] and np.array_equal(ts[0], snap[1][0])
                  and np.array_equal(ts[1], snap[1][1]))
            if not ok:
                run.failing(SITE, sc + "|mutated", f"{sc}: argument modified",
                            payload=payload, theorem="C10_no_mutation")
            no_alias(run, sc, a_idnt, {"names": nm, "training_set": ts},
                     payload)
            if what == "names":
                nm.pop()
                ts = tuple(IndentationRater.load_training_set(names=nm))
                kw = dict(regressor=reg, names=nm,
                          training_set=ts)
            else:
                ts[1][:] = np.clip(ts[1] // 2 + 1, 0, 10)
            ra = a_idnt.rate_quality(**kw)
            rb = b_idnt.rate_quality(regressor=reg,
                                     names=list(nm),
                                     training_set=(ts[0].copy(), ts[1].copy()))
            if ra != rb:
                run.failing(SITE, sc + "|by-value",
                            f"{sc}: edited argument passed again gives {ra}, "
                            f"a fresh equal-valued one {rb}", payload=payload,
                            theorem="C10_by_value")
        # the rater class itself, with every pipeline layout
        for scale in (None, True, False):
            for lda in (None, True):
                sc = f"IndentationRater(scale={scale}, lda={lda})"
                payload = {"kind": "rating", "what": sc}
                run.case({"api": sc}, kind="rating")
                nm = list(names)
                X, y = IndentationRater.load_training_set(names=nm)
                ts = (X.copy(), y.copy())
                try:
                    from sklearn import svm
                    r1 = IndentationRater(regressor=svm.SVR(), scale=scale,
                                          lda=lda, training_set=ts, names=nm)
                    s1 = np.array(r1.pipeline.predict(X[:5].copy()))
                    r2 = IndentationRater(regressor=svm.SVR(), scale=scale,
                                          lda=lda, training_set=ts, names=nm)
                    s2 = np.array(r2.pipeline.predict(X[:5].copy()))
                except BaseException as e:
                    run.failing(SITE, sc + "|raised", f"{sc}: raised "
                                f"{type(e).__name__}: {e}", payload=payload)
                    continue
                if not (np.array_equal(ts[0], X) and np.array_equal(ts[1], y)
                        and nm == names):
                    run.failing(SITE, sc + "|mutated", f"{sc}: the training "
                                "set / names handed over were modified",
                                payload=payload, theorem="C10_no_mutation")
                if not np.array_equal(s1, s2):
                    run.failing(SITE, sc + "|by-value", f"{sc}: the same "
                                "training set objects used a second time "
                                f"predict {s2.tolist()}, the first time "
                                f"{s1.tolist()}", payload=payload,
                                theorem="C10_by_value")


def array_arguments(run):
    """pure functions taking arrays / parameter sets: nothing is modified"""
    from nanite import poc, model
    with warnings.catch_warnings():
        warnings.simplefilter("ignore")
        cols = m1.small_curve(7, n_app=150, n_ret=70)
        f = np.array(cols["force"], copy=True)
        for meth in [m.identifier for m in poc.POC_METHODS]:
            snap = f.copy()
            run.case({"api": "compute_poc", "method": meth}, kind="array")
            for rd in (False, True):
                ret = poc.compute_poc(f, meth, ret_details=rd)
                if rd:
                    # nothing that is handed back may share memory with the
                    # caller's array (an edit on either side would reach the
                    # other)
                    shared = []

                    def walk(o, path):
                        if isinstance(o, np.ndarray):
                            if np.shares_memory(o, f):
                                shared.append(path)
                        elif isinstance(o, dict):
                            for kk, vv in o.items():
                                walk(vv, f"{path}[{kk!r}]")
                        elif isinstance(o, (list, tuple)):
                            for ii, vv in enumerate(o):
                                walk(vv, f"{path}[{ii}]")
                    walk(ret, "result")
                    if shared:
                        run.failing(SITE, f"compute_poc|{meth}|alias",
                                    f"compute_poc({meth}, ret_details=True): "
                                    f"{shared[0]} shares memory with the "
                                    "caller's force array",
                                    payload={"kind": "rerun"},
                                    theorem="C10_separation")
                if f.tobytes() != snap.tobytes():
                    run.failing(SITE, f"compute_poc|{meth}|mutated",
                                f"compute_poc({meth}) modified the force "
                                "array", payload={"kind": "array",
                                                  "api": "compute_poc",
                                                  "method": meth},
                                theorem="C10_no_mutation")
        # the details returned by apply_preprocessing(ret_details=True) are
        # the caller's: editing them must not reach the curve
        idnt = curve(9)
        det = idnt.apply_preprocessing(list(PIPE), ret_details=True)
        before = outcome(idnt)
        run.case({"api": "apply_preprocessing(ret_details)"}, kind="array")

        def scale(o):
            if isinstance(o, np.ndarray) and o.dtype.kind == "f" \
                    and o.flags.writeable:
                o *= 1e9
            elif isinstance(o, dict):
                for vv in o.values():
                    scale(vv)
            elif isinstance(o, (list, tuple)):
                for vv in o:
                    scale(vv)
        try:
            scale(det)
        except BaseException:
            pass
        d = diff(before, outcome(idnt))
        if d:
            run.failing(SITE, "apply_preprocessing|details|alias",
                        "editing the details returned by apply_preprocessing("
                        f"ret_details=True) in place changed the curve ({d})",
                        payload={"kind": "rerun"}, theorem="C10_separation")
        for key in sorted(model.models_available):
            md = model.models_available[key]
            p = md.get_parameter_defaults()
            for orient in (1, -1):
                x = np.linspace(2e-6, -1e-6, 80)[::orient].copy()
                y = np.linspace(0, 1e-9, 80)
                ps, xs, ys = copy.deepcopy(p), x.copy(), y.copy()
                run.case({"api": "model/residual", "model": key,
                          "orientation": orient}, kind="array")
                try:
                    md.model(p, x)
                    md.residual(p, x, y, 1e-6)
                    md.residual(p, x, y, False)
                    md.module.model_func(x, **{k: v.value
                                               for k, v in p.items()})
                except BaseException as e:
                    run.count("array:raised:" + type(e).__name__)
                    continue
                if not (same(ps, p) and x.tobytes() == xs.tobytes()
                        and y.tobytes() == ys.tobytes()):
                    run.failing(SITE, f"model:{key}|mutated",
                                f"model/residual function of {key} modified "
                                "its arguments",
                                payload={"kind": "array", "api": "model",
                                         "model": key},
                                theorem="C10_no_mutation")
        # fitting with k != 1 and multi-pass ranges leaves the caller's
        # parameters alone
        for kw in [dict(gcf_k=0.5), dict(gcf_k=2.0, range_type="relative cp",
                                         range_x=[-2e-6, 1e-6]),
                   dict(gcf_k=0.5, optimal_fit_edelta=True,
                        optimal_fit_num_samples=8),
                   # passes that cannot be fitted (too few points)
                   dict(gcf_k=0.5, range_x=[5e-6, 5.00001e-6]),
                   dict(gcf_k=2.0, range_type="relative cp",
                        range_x=[1e-3, 2e-3])]:
            idnt = curve(8)
            idnt.apply_preprocessing(list(PIPE))
            p = idnt.get_initial_fit_parameters(model_key="hertz_para")
            p["contact_point"].set(value=3e-7)      # (not 0: k * 0 = 0)
            ps = copy.deepcopy(p)
            run.case({"api": "fit_model", "kw": kw}, kind="array")
            try:
                idnt.fit_model(params_initial=p, model_key="hertz_para", **kw)
            except BaseException as e:
                run.count("fit:raised:" + type(e).__name__)
            stored = idnt.fit_properties.get("params_initial")
            if stored is not None and not same(ps, stored):
                run.failing(SITE, f"fit_model|{sorted(kw)}|stored",
                            f"fit_model({kw}): the initial parameters the "
                            "curve remembers differ from the values that "
                            "were passed", payload={"kind": "rerun"},
                            theorem="C10_by_value")
            if not same(ps, p):
                run.failing(SITE, f"fit_model|{sorted(kw)}|mutated",
                            f"fit_model({kw}) modified the caller's initial "
                            "parameters", payload={"kind": "fitk",
                                                   "kw": sorted(kw)},
                            theorem="C10_no_mutation")


def check(run):
    run.sources = common.source_digests(
        ["src/nanite/fit.py", "src/nanite/indent.py", "src/nanite/preproc.py",
         "src/nanite/poc.py"])
    gen_all.generate_all()
    common.prove(run, "C10")
    run.trusted = [
        "Coq 8.16.1 kernel + vm_compute (closed under the global context)",
        "coq/Model/Heap.v: object graphs flattened in pre-order with "
        "identities; tied by replaying every scenario's operation list in Coq "
        "and comparing library values, caller values and the emptiness of the "
        "shared-identity set with what the harness reads from the real "
        "objects (id(), np.shares_memory)",
    ]
    run.assumptions = [
        "CPython object identity is observed, not modelled; immutable leaves "
        "(str, numbers, None) are folded into their container's digest",
        "library state = fit_properties values, preprocessing, "
        "preprocessing_options, _rating of the curve",
        "structural edits (append/pop/del) are checked behaviourally (twin "
        "curve) and for aliasing; only value edits are mirrored in Coq",
    ]
    mirrors = []
    twin_scenarios(run, mirrors)
    returned_objects(run, mirrors)
    exposed_state(run)
    emptied_argument_cases(run)
    fitted_params_as_argument_cases(run)
    rating_arguments(run)
    array_arguments(run)
    exprs = [e for m in mirrors for (e, _) in m.exprs]
    descr = [d for m in mirrors for (_, d) in m.exprs]
    fits.eval_bool_cases(run, "c10_heap", exprs, descr, head=HEAD, chunk=40)
    run.extra["coq_mirrored_observations"] = len(exprs)
    run.rule = ("every API with a mutable argument x every in-place edit of "
                "the catalogue x correction factor / multi-pass range types: "
                "argument deep-compared before/after, identity sets of "
                "library state and caller objects intersected, second call "
                "with the edited object compared bit for bit with a twin "
                "curve given a fresh equal-valued object; returned objects; "
                "rating arguments; array arguments of estimators and model "
                "functions; value edits replayed in the Coq reference model; "
                "distinct by (api, edit, settings)")


def replay(rec):
    pl = rec.get("payload") or {}

    class R:
        bad = False
        tier = "thorough"

        def failing(self, *a, **k):
            R.bad = True
            return True

        def case(self, *a, **k):
            pass

        def count(self, *a, **k):
            pass
    kind = pl.get("kind")
    if kind == "twin":
        twin_scenarios(R(), [])
    elif kind == "returned":
        returned_objects(R(), [])
    elif kind == "exposed":
        exposed_state(R())
    elif kind == "rating":
        rating_arguments(R())
    elif kind in ("array", "fitk"):
        array_arguments(R())
    else:
        return common.replay_by_rerun(sys.modules[__name__], rec)
    return not R.bad
