"""C03 -- fit results depend only on data and current settings."""
import copy

import sys

import numpy as np

from .. import common, gen_all, curves, m1
from ..pyval import canon

SITE = "nanite.indent.Indentation.fit_model"
SITE_EDIT = "nanite.fit.FitProperties.__setitem__"


def stored_settings(idnt):
    from nanite.fit import FP_DEFAULT
    fp = idnt.fit_properties
    return {k: copy.deepcopy(fp[k]) for k in FP_DEFAULT
            if k in fp and k not in ("preprocessing", "preprocessing_options")}


def same_arr(a, b):
    a, b = np.asarray(a), np.asarray(b)
    return a.shape == b.shape and a.tobytes() == b.tobytes()


def compare_with_fresh(idnt, cols):
    """None if the visible results equal those of a fresh curve with the
    stored preprocessing and settings applied once; else a description"""
    fp = idnt.fit_properties
    fresh = curves.make_indentation(cols)
    try:
        fresh.apply_preprocessing(copy.deepcopy(fp.get("preprocessing", [])),
                                  copy.deepcopy(fp.get("preprocessing_options",
                                                       {})))
        fresh.fit_model(**stored_settings(idnt))
    except BaseException as e:
        return f"fresh curve cannot reproduce: {type(e).__name__}: {e}"
    f2 = fresh.fit_properties
    if f2.get("hash") != fp.get("hash"):
        return f"hash differs: {fp.get('hash')} vs fresh {f2.get('hash')}"
    if bool(f2.get("success")) != bool(fp.get("success")):
        return "success flag differs"
    for key in ["chi_sqr", "xmin", "xmax", "optimal_fit_delta"]:
        if (key in fp) != (key in f2):
            return f"result key {key} present on one side only"
        if key in fp and not same_arr(fp[key], f2[key]):
            return f"{key} differs: {fp[key]!r} vs fresh {f2[key]!r}"
    if ("params_fitted" in fp) != ("params_fitted" in f2):
        return "params_fitted present on one side only"
    if "params_fitted" in fp:
        for p in fp["params_fitted"]:
            a, b = fp["params_fitted"][p].value, f2["params_fitted"][p].value
            if not same_arr(a, b):
                return f"fitted {p} differs: {a!r} vs fresh {b!r}"
    for col in ["fit", "fit residuals", "fit range"]:
        if (col in idnt) != (col in fresh):
            return f"column {col} present on one side only"
        if col in idnt and not same_arr(idnt[col], fresh[col]):
            return f"column '{col}' differs from the fresh curve"
    return None


def norm_history(hist):
    return [m1.op_json(o) for o in hist]


def explore(run, n_hist, rec_prefix, weights=None, seed_off=0, oracle=True):
    rec = m1.Recorder(run, rec_prefix)
    rng = run.rng
    with m1.Capture() as cap:
        for h in range(n_hist):
            cols = m1.small_curve(h + seed_off)
            idnt = curves.make_indentation(cols)
            hist = []
            seen = set()
            if rng.random() < 0.8:
                op = ("ApplyPre", copy.deepcopy(rng.choice(m1.VALID_PIPES[3:7])),
                      None, False)
                rec.step(idnt, op, cap)
                hist.append(op)
            for _ in range(rng.randint(3, 12)):
                op = m1.rnd_op(rng, idnt, weights)
                out, n = rec.step(idnt, op, cap)
                hist.append(op)
                fp = idnt.fit_properties
                nontriv = len(hist) >= 2 and any(o[0] in ("FitModel",)
                                                 for o in hist[:-1])
                run.case({"history": norm_history(hist[-4:]), "len": len(hist),
                          "outcome": out[0]}, nontrivial=nontriv,
                         kind=f"{op[0]}:{out[0]}"
                         + (":" + out[1] if out[0] == "Raised" else ""))
                key = None
                if "hash" in fp:
                    # (the columns are part of what is compared: the same
                    # settings over other data or without result columns is
                    # another state)
                    import hashlib
                    dig = hashlib.md5()
                    for c in sorted(idnt.columns):
                        dig.update(c.encode())
                        dig.update(np.ascontiguousarray(idnt[c]).tobytes())
                    key = common.sha([fp["hash"], canon(stored_settings(idnt)),
                                      canon(fp.get("preprocessing")),
                                      canon(fp.get("preprocessing_options")),
                                      dig.hexdigest()])
                if oracle and key is not None and key not in seen:
                    seen.add(key)
                    why = compare_with_fresh(idnt, cols)
                    run.count("fresh-comparisons")
                    site, fkey = SITE, "history:" + common.sha(
                        norm_history(hist))[:16]
                    if why and "cannot reproduce" in why:
                        # equal-valued setting of a type the fitter rejects
                        seg = fp.get("segment")
                        ns = fp.get("optimal_fit_num_samples")
                        if isinstance(seg, float):
                            site, fkey = SITE_EDIT, f"setitem:segment:{canon(seg)}"
                        elif isinstance(ns, float) and fp.get(
                                "optimal_fit_edelta"):
                            site, fkey = SITE_EDIT, (
                                "setitem:optimal_fit_num_samples:"
                                f"{canon(ns)}")
                    if why:
                        run.failing(
                            site, fkey,
                            "results differ from a fresh curve with the "
                            f"stored settings after {len(hist)} operations: "
                            f"{why}",
                            payload={"kind": "history", "curve_seed": h + seed_off,
                                     "history": norm_history(hist)},
                            expected="bit-identical to fresh curve",
                            observed=why, theorem="C03_valid")
                if oracle and "hash" in fp and rng.random() < 0.3:
                    # repeat fit with unchanged settings: nothing happens
                    before = m1.alpha(idnt)
                    c0 = cap.minimize_calls
                    idnt.fit_model()
                    run.count("repeat-fit-checks")
                    if cap.minimize_calls != c0 or m1.alpha(idnt) != before:
                        run.failing(
                            SITE, "repeat:" + common.sha(norm_history(hist))[:16],
                            "fit_model() with unchanged settings optimised "
                            "again or changed the state",
                            payload={"kind": "history", "curve_seed": h + seed_off,
                                     "history": norm_history(hist)
                                     + [["FitModel", {"dict": []}]]},
                            theorem="C03_no_recompute")
    rec.flush()
    return rec


SWEEP_DOMAIN = {
    "model_key": ["hertz_para", "hertz_cone", "no_such_model"],
    "range_x": [[0, 0], (0, 0), [0.0, 0.0], [-2e-6, 1e-6], [-1e-6, 1e-6],
                [-2e-6, 0], [0, 0, 0], [3e-6, 1e-6], [1e-6, -2e-6]],
    "range_type": ["absolute", "relative cp", "relative"],
    "segment": [0, 1, "approach", "retract", True, False, 0.0],
    "weight_cp": [1e-6, 5e-7, 0, False, 2e-6, 1],
    "gcf_k": [1.0, 1, 0.5, 2.0, True],
    "method": ["leastsq", "nelder"],
    "x_axis": ["tip position", "height (measured)"],
    "y_axis": ["force", "height (piezo)"],
    "optimal_fit_edelta": [False, True, 0, 1],
    "optimal_fit_num_samples": [8, 8.0, 9, 100],
    "method_kws": [{}, {"ftol": 1e-9}],
    "params_initial": ["same", "same-edited-value", "same-edited-vary", None],
    "preprocessing_options": [{}],
    "unknown_key": [1],
    "success": [False],
}


def fitted_object(cols, **kw):
    idnt = curves.make_indentation(cols)
    idnt.apply_preprocessing(["compute_tip_position", "correct_force_offset",
                              "correct_tip_offset"])
    idnt.fit_model(**kw)
    return idnt


def setitem_sweep(run):
    """finite abstraction of FitProperties.__setitem__: every key x
    (equal / equal in another representation / different) value, on fitted
    and unfitted templates; model correspondence + fresh-curve oracle"""
    rec = m1.Recorder(run, "c03_setitem")
    cols = m1.small_curve(11)
    templates = [
        ("fitted", dict()),
        ("fitted-plateau", dict(optimal_fit_edelta=True,
                                optimal_fit_num_samples=8,
                                range_x=[-2e-6, 1e-6])),
        ("fitted-retract-k", dict(segment=1, gcf_k=0.5, weight_cp=0)),
    ]
    with m1.Capture() as cap:
        for tname, kw in templates:
            for key, dom in SWEEP_DOMAIN.items():
                for val in dom:
                    idnt = fitted_object(cols, **kw)
                    v = copy.deepcopy(val)
                    if key == "params_initial" and isinstance(val, str):
                        v = idnt.get_initial_fit_parameters()
                        if val == "same-edited-value":
                            v["E"].set(value=float(v["E"].value) * 2)
                        elif val == "same-edited-vary":
                            v["baseline"].set(vary=not v["baseline"].vary)
                    op = ("SetFP", key, v)
                    out, _ = rec.step(idnt, op, cap)
                    run.case({"template": tname, "key": key,
                              "value": canon(val), "outcome": out[0]},
                             kind="setitem-" + out[0])
                    fp = idnt.fit_properties
                    if ("hash" in fp and key not in ("chi_sqr", "success")):
                        why = compare_with_fresh(idnt, cols)
                        if why:
                            run.failing(
                                SITE_EDIT,
                                f"setitem:{key}:{canon(val)}",
                                f"after fit_properties['{key}'] = {canon(val)}"
                                f" on template {tname} the old results stay "
                                f"visible: {why}",
                                payload={"kind": "setitem", "template": tname,
                                         "key": key, "value": canon(val)},
                                theorem="C03_setitem_sound")
        # unfitted templates (model correspondence only)
        for pre in [None, ["compute_tip_position"]]:
            for key, dom in SWEEP_DOMAIN.items():
                for val in dom:
                    if isinstance(val, str) and val.startswith("same"):
                        continue
                    idnt = curves.make_indentation(cols)
                    if pre:
                        idnt.apply_preprocessing(pre)
                    rec.step(idnt, ("SetFP", key, copy.deepcopy(val)), cap)
                    run.case({"template": "unfitted", "pre": pre, "key": key,
                              "value": canon(val)}, kind="setitem-unfitted")
    rec.flush()


def scenario_direct_edit(run):
    """known finding: editing the preprocessing keys of fit_properties by
    hand is not followed by the data"""
    for key, val in [("preprocessing", ["compute_tip_position",
                                        "correct_tip_offset"]),
                     ("preprocessing_options",
                      {"correct_tip_offset": {"method": "frechet_direct_path"}})]:
        cols = m1.small_curve(3)
        idnt = curves.make_indentation(cols)
        idnt.apply_preprocessing(["compute_tip_position", "correct_force_offset",
                                  "correct_tip_offset"])
        idnt.fit_model()
        idnt.fit_properties[key] = copy.deepcopy(val)
        idnt.fit_model()
        why = compare_with_fresh(idnt, cols)
        run.case({"scenario": "direct-edit", "key": key}, kind="scenario")
        if why:
            run.failing(SITE_EDIT, "direct-edit:" + key,
                        f"fit_properties['{key}'] edited by hand: {why}",
                        payload={"kind": "scenario", "name": "direct-edit",
                                 "key": key},
                        theorem="C03_direct_edit_refuted")


def scenario_unsuccessful_refit(run):
    """a successful fit followed by a fit that cannot be performed (range
    without data; relative range with too few points): what is shown is what a
    fresh curve with the stored settings shows"""
    for name, kw in [("absolute-range-without-data",
                      dict(range_type="absolute", range_x=[1.0, 2.0])),
                     ("relative-range-too-few-points",
                      dict(range_type="relative cp", range_x=[1e-3, 2e-3])),
                     ("absolute-range-two-points",
                      dict(range_type="absolute", range_x=[-1e-9, 1e-9]))]:
        cols = m1.small_curve(4)
        idnt = curves.make_indentation(cols)
        idnt.apply_preprocessing(["compute_tip_position", "correct_force_offset",
                                  "correct_tip_offset"])
        run.case({"scenario": "unsuccessful-refit", "kind": name},
                 kind="scenario")
        try:
            idnt.fit_model(model_key="hertz_para")
            idnt.fit_model(**copy.deepcopy(kw))
            why = compare_with_fresh(idnt, cols)
        except BaseException as e:
            why = f"raised {type(e).__name__}: {e}"
        if why:
            run.failing(SITE, "unsuccessful-refit:" + name,
                        f"successful fit, then fit_model({kw}): {why}",
                        payload={"kind": "rerun"}, theorem="C03_valid")


def scenario_scan_after_fit(run):
    """analysis-only calls after a fit (E(delta) scan, optimal depth, initial
    parameters of another model and back, contact point estimate): the
    results shown stay those of the fit"""
    cols = m1.small_curve(6, n_app=120, n_ret=50)
    for name in ("compute_emodulus_mindelta", "estimate_optimal_mindelta",
                 "estimate_contact_point_index"):
        idnt = curves.make_indentation(cols)
        idnt.apply_preprocessing(["compute_tip_position", "correct_force_offset",
                                  "correct_tip_offset"])
        run.case({"scenario": "analysis-after-fit", "call": name},
                 kind="scenario")
        try:
            import warnings
            with warnings.catch_warnings():
                warnings.simplefilter("ignore")
                idnt.fit_model(model_key="hertz_para", range_x=[-1e-6, 1e-6])
                getattr(idnt, name)()
            why = compare_with_fresh(idnt, cols)
        except BaseException as e:
            why = f"raised {type(e).__name__}: {e}"
        if why:
            run.failing(SITE, "analysis-after-fit:" + name,
                        f"fit, then {name}(): {why}",
                        payload={"kind": "rerun"}, theorem="C03_valid")


def scenario_inverted_interval(run):
    """an interval given in descending order (accepted with a warning): the
    fit is remembered like any other -- a hash is visible, the stored interval
    is the one given, repeating the call (with no argument, with the same
    interval) performs no optimisation, and the curve equals a fresh one"""
    import warnings
    cols = m1.small_curve(6, n_app=120, n_ret=50)
    for rt, rx in (("absolute", [1e-6, -2e-6]),
                   ("relative cp", [5e-7, -1.5e-6]),
                   ("absolute", (1e-6, -1e-6))):
        key = f"inverted-interval:{rt}:{canon(rx)}"
        run.case({"scenario": "inverted-interval", "range_type": rt,
                  "range_x": canon(rx)}, kind="scenario")
        try:
            with m1.Capture() as cap, warnings.catch_warnings():
                warnings.simplefilter("ignore")
                idnt = curves.make_indentation(cols)
                idnt.apply_preprocessing(["compute_tip_position",
                                          "correct_force_offset",
                                          "correct_tip_offset"])
                idnt.fit_model(model_key="hertz_para", range_type=rt,
                               range_x=copy.deepcopy(rx))
                fp = idnt.fit_properties
                why = None
                if fp.get("success") and "hash" not in fp:
                    why = "a successful fit is shown without a hash"
                elif [float(v) for v in fp["range_x"]] != \
                        [float(v) for v in rx]:
                    why = (f"the stored interval is {list(fp['range_x'])}, "
                           f"the caller gave {list(rx)}")
                else:
                    c0 = cap.minimize_calls
                    idnt.fit_model()
                    idnt.fit_model(range_x=copy.deepcopy(rx))
                    idnt.fit_model(model_key="hertz_para", range_type=rt,
                                   range_x=copy.deepcopy(rx))
                    if cap.minimize_calls != c0:
                        why = (f"repeating the unchanged request performed "
                               f"{cap.minimize_calls - c0} new optimisations")
                    else:
                        why = compare_with_fresh(idnt, cols)
        except BaseException as e:
            why = f"raised {type(e).__name__}: {e}"
        if why:
            run.failing(SITE, key, f"fit with {rt} interval {list(rx)}: {why}",
                        payload={"kind": "rerun"}, theorem="C03_valid")


def scenario_nested_option_edit(run):
    """the caller's own options object (a dictionary of per-step
    dictionaries) passed, a step option changed in place at the nested
    level, the same object passed again: the curve shows the results of the
    stored settings, as a fresh curve does"""
    steps = ["compute_tip_position", "correct_force_offset",
             "correct_tip_offset"]
    for via in ("apply_preprocessing", "fit_model", "both"):
        for newm in ("fit_constant_polynomial", "gradient_zero_crossing"):
            cols = m1.small_curve(9, n_app=120, n_ret=50)
            idnt = curves.make_indentation(cols)
            opts = {"correct_tip_offset": {"method": "deviation_from_baseline"}}
            run.case({"scenario": "nested-option-edit", "via": via,
                      "method": newm}, kind="scenario")
            try:
                idnt.apply_preprocessing(list(steps), opts)
                idnt.fit_model(model_key="hertz_para")
                opts["correct_tip_offset"]["method"] = newm
                if via in ("apply_preprocessing", "both"):
                    idnt.apply_preprocessing(list(steps), opts)
                if via in ("fit_model", "both"):
                    idnt.fit_model(preprocessing=list(steps),
                                   preprocessing_options=opts)
                else:
                    idnt.fit_model()
                why = compare_with_fresh(idnt, cols)
            except BaseException as e:
                why = f"raised {type(e).__name__}: {e}"
            if why:
                run.failing(SITE_EDIT, f"nested-option-edit:{via}:{newm}",
                            f"options object edited in place at the nested "
                            f"level ({newm}) and passed again through {via}: "
                            f"{why}", payload={"kind": "rerun"},
                            theorem="C03_valid")


def scenario_gcf(run):
    """regression for the repaired in-place rescaling of the contact point"""
    ok = True
    detail = ""
    for rt, k in [("absolute", 0.5), ("relative cp", 0.5), ("absolute", 2.0)]:
        cols = m1.small_curve(5)
        idnt = curves.make_indentation(cols)
        idnt.apply_preprocessing(["compute_tip_position", "correct_force_offset",
                                  "correct_tip_offset"])
        idnt.fit_model(gcf_k=k, range_type=rt,
                       range_x=[-2e-6, 1e-6] if rt == "relative cp" else [0, 0])
        idnt.fit_properties["weight_cp"] = 2e-6
        idnt.fit_model()
        why = compare_with_fresh(idnt, cols)
        run.case({"scenario": "gcf-history", "k": k, "range_type": rt},
                 kind="scenario")
        if why:
            ok = False
            detail = why
    return ok, detail


def near_equal_corpus(run):
    """fixed corpus, run on every check: a fitted curve whose setting is then
    changed only slightly (nanometres, 1e-9 relative, bounds only, one option
    of one step) must show the results of the NEW settings -- compared bit for
    bit with a fresh curve"""
    pipe = ["compute_tip_position", "correct_force_offset",
            "correct_tip_offset"]

    def params(idnt, edit):
        p = idnt.get_initial_fit_parameters()
        edit(p)
        return p

    def e_val(p):
        p["E"].set(value=float(p["E"].value) * (1 + 1e-9))

    def e_max(p):
        p["E"].set(max=2000.0)

    def e_min(p):
        p["contact_point"].set(min=-1e-7)

    def e_vary(p):
        p["baseline"].set(vary=False)
    changes = [
        ("range_x shifted by 5 nm", {"range_x": [-2e-6, 1e-6]},
         lambda i: {"range_x": [-2.005e-6, 1e-6]}),
        ("range_x from [0, 0] to 5 nm", {"range_x": [0, 0]},
         lambda i: {"range_x": [-5e-9, 5e-9]}),
        ("range_x upper bound + 4 nm", {"range_x": (-1e-6, 5e-7)},
         lambda i: {"range_x": (-1e-6, 5.04e-7)}),
        ("weight_cp + 1e-9 relative", {"weight_cp": 1e-6},
         lambda i: {"weight_cp": 1e-6 * (1 + 1e-9)}),
        ("gcf_k + 1e-7", {"gcf_k": 1.0}, lambda i: {"gcf_k": 1.0000001}),
        ("initial E + 1e-9 relative", {},
         lambda i: {"params_initial": params(i, e_val)}),
        ("upper bound of E only", {},
         lambda i: {"params_initial": params(i, e_max)}),
        ("lower bound of the contact point only", {},
         lambda i: {"params_initial": params(i, e_min)}),
        ("vary flag of the baseline only", {},
         lambda i: {"params_initial": params(i, e_vary)}),
        ("method_kws tolerance", {"method_kws": {"ftol": 1e-9}},
         lambda i: {"method_kws": {"ftol": 1.1e-9}}),
        ("one option of one preprocessing step", {},
         lambda i: {"preprocessing": list(pipe), "preprocessing_options": {
             "correct_tip_offset": {"method": "fit_constant_line"}}}),
    ]
    for via in ("fit_model", "setitem"):
        for name, first, second in changes:
            cols = m1.small_curve(11, n_app=100, n_ret=50)
            idnt = curves.make_indentation(cols)
            run.case({"corpus": name, "via": via}, kind="near-equal")
            try:
                idnt.apply_preprocessing(list(pipe))
                idnt.fit_model(model_key="hertz_para", **first)
                kw = second(idnt)
                if via == "fit_model" or "preprocessing" in kw:
                    idnt.fit_model(**kw)
                else:
                    for k, v in kw.items():
                        idnt.fit_properties[k] = v
                    idnt.fit_model()
                why = compare_with_fresh(idnt, cols)
            except BaseException as e:
                why = f"raised {type(e).__name__}: {e}"
            if why:
                run.failing(SITE, f"near-equal:{name}:{via}",
                            f"after changing only [{name}] (via {via}) the "
                            f"visible results are not those of the stored "
                            f"settings: {why}",
                            payload={"kind": "near-equal", "name": name,
                                     "via": via}, theorem="C03_valid")


def check(run):
    run.sources = common.source_digests(["src/nanite/fit.py",
                                         "src/nanite/indent.py"])
    gen_all.generate_all()
    common.prove(run, "C03", extra_targets=["Model/CurveEq.vo"])
    run.trusted = [
        "Coq 8.16.1 kernel + vm_compute",
        "tools/nv/gen_tables.py (FP_DEFAULT / FP_RESULTS / defaults / "
        "registered models by introspection)",
        "hand-written model coq/Model/Curve.v tied by stepwise "
        "correspondence (abstraction function tools/nv/m1.py:alpha)",
        "oracle capture by wrapping preproc.apply, guess_initial_parameters,"
        " IndentationFitter._hash/.fit, get_rater from the harness",
    ]
    run.assumptions = [
        "preprocessing, the optimiser, hashing and rating are deterministic "
        "functions of (data, settings) -- exercised by the fresh-curve "
        "comparison, not proved",
        "the rater is replaced by a stub in control-state histories",
        "fit_properties result keys are not written by hand; the two "
        "preprocessing keys are changed through apply_preprocessing/fit_model "
        "(direct edits: known finding)",
    ]
    n = 40 if run.tier == "quick" else 500
    explore(run, n, "c03_hist")
    setitem_sweep(run)
    near_equal_corpus(run)
    scenario_direct_edit(run)
    scenario_nested_option_edit(run)
    scenario_unsuccessful_refit(run)
    scenario_scan_after_fit(run)
    scenario_inverted_interval(run)
    ok, detail = scenario_gcf(run)
    for k in run.known:
        if k.get("status") == "fixed" and k["id"].startswith("C03/gcf"):
            run.fixed_must_pass(k["id"], ok, detail)
    if not ok and not any(k["id"].startswith("C03/gcf") for k in run.known):
        run.failing(SITE, "gcf-history", detail, theorem="C03_valid")
    run.rule = ("random operation histories (3-13 operations over "
                "apply_preprocessing / fit_model / fit_properties[k]=v / "
                "rate_quality / compute_emodulus_mindelta / "
                "get_initial_fit_parameters, valid and raising) on small "
                "synthetic curves; every step compared with the Coq model; "
                "whenever a new hash is visible the results are compared "
                "bit for bit with a fresh curve; non-trivial = at least one "
                "operation after a fit; distinct by the last four operations")


def replay(rec):
    pl = rec.get("payload") or {}

    class R:
        bad = False
        rng = None

        def failing(self, *a, **k):
            R.bad = True

        def case(self, *a, **k):
            pass

        def count(self, *a, **k):
            pass
    if pl.get("kind") == "scenario":
        scenario_direct_edit(R())
        return not R.bad
    if pl.get("kind") == "near-equal":
        near_equal_corpus(R())
        return not R.bad
    print("history replays are re-generated from the seed: run "
          "VERIF_SEED=%s ./check C03" % rec.get("seed"))
    return common.replay_by_rerun(sys.modules[__name__], rec)
