"""C20 -- loading yields one object per recorded curve; maps put values at their
pixel."""
import pathlib
import re
import shutil
import warnings
import zipfile

import sys

import numpy as np

from .. import common, gen_all, curves, fits
from ..common import coq_float

SITE = "nanite.read / nanite.group"
SITE_Q = "nanite.qmap"
DATA = common.REPO / "tests" / "data"
PIPE = ["compute_tip_position", "correct_force_offset", "correct_tip_offset"]

HEAD = """From Coq Require Import List PrimFloat Bool Arith.
From NV Require Import Base.Exn Model.FitCoreF Model.QMap Model.QMapF.
Import ListNotations.
Definition tags_eqb (a : res (list curve_desc)) (b : list nat) : bool :=
  match a with
  | Ok l => Nat.eqb (length l) (length b) && forallb (fun p => Nat.eqb (tag (fst p)) (snd p)) (combine l b)
  | Err _ => false
  end.
Fixpoint append_all (g : list curve_desc) (cs : list curve_desc) : list curve_desc * list bool :=
  match cs with
  | [] => (g, [])
  | c :: t => match append g c with
              | Ok g' => let (gf, r) := append_all g' t in (gf, true :: r)
              | Err _ => let (gf, r) := append_all g t in (gf, false :: r)
              end
  end.
Definition bools_eqb (a b : list bool) : bool :=
  Nat.eqb (length a) (length b) && forallb (fun p => Bool.eqb (fst p) (snd p)) (combine a b).
Definition nats_eqb (a b : list nat) : bool :=
  Nat.eqb (length a) (length b) && forallb (fun p => Nat.eqb (fst p) (snd p)) (combine a b).
Definition append_agrees (cs : list curve_desc) (accepted : list bool) (final : list nat) : bool :=
  let (g, r) := append_all [] cs in bools_eqb r accepted && nats_eqb (map tag g) final.
Definition res_ofloat_same (a : res (option float)) (b : option float) (raised : bool) : bool :=
  match a with
  | Ok v => negb raised && ofloat_same v b
  | Err _ => raised
  end.
"""


def fd_files():
    out = []
    for p in sorted(DATA.glob("fmt-jpk-fd_*")):
        out.append(p)
    return out


def independent_count(path):
    """number of curves in a JPK container, read from the zip directory"""
    with zipfile.ZipFile(path) as z:
        names = z.namelist()
    if str(path).endswith(".jpk-force-map"):
        idx = {int(m.group(1)) for n in names
               for m in [re.match(r"index/(\d+)/", n)] if m}
        return len(idx)
    return 1


class Callbacks:
    """records the per-file callback values afmformats produces and the
    values nanite hands to the caller"""

    def __init__(self):
        self.outer = []
        self.files = []

    def cb(self, x):
        self.outer.append(float(x))

    def __enter__(self):
        import nanite.read as nread
        self.nread = nread
        self.orig = nread.afmformats.load_data
        me = self

        def wrapped(path, callback=None, **kw):
            rec = []
            me.files.append(rec)
            if callback is None:
                return me.orig(path, callback=None, **kw)

            def inner(x):
                rec.append(float(x))
                return callback(x)
            return me.orig(path, callback=inner, **kw)
        nread.afmformats.load_data = wrapped
        return self

    def __exit__(self, *a):
        self.nread.afmformats.load_data = self.orig


def check_progress(run, key, seq, what):
    ok = all(0 <= v <= 1 for v in seq) and all(
        b >= a for a, b in zip(seq, seq[1:])) and (not seq or seq[-1] == 1.0)
    if not ok:
        run.failing(SITE, key, f"{what}: progress callbacks {seq[:12]}... are "
                    "not non-decreasing within [0, 1] ending at 1",
                    payload={"kind": "progress", "what": what},
                    theorem="C20_progress")
    return ok


def loading(run, exprs, descr):
    import nanite
    from nanite import Indentation, IndentationGroup
    from afmformats.errors import MissingMetaDataError
    files = fd_files()
    if run.tier == "quick":
        files = [f for f in files if "bad" not in f.name or "map" in f.name]
    counts = {}
    for p in files:
        n = independent_count(p)
        counts[p.name] = n
        run.case({"file": p.name, "curves": n}, kind="file")
        key = f"file:{p.name}"
        try:
            seq = []
            with warnings.catch_warnings():
                warnings.simplefilter("ignore")
                grp = IndentationGroup(p, callback=lambda x: seq.append(
                    float(x)))
                grp2 = nanite.load_group(p)
        except BaseException as e:
            run.failing(SITE, key + "|raised", f"{p.name}: loading raised "
                        f"{type(e).__name__}: {e}",
                        payload={"kind": "file", "name": p.name})
            continue
        why = None
        enums = [i.enum for i in grp]
        if len(grp) != n or len(grp2) != n:
            why = f"{len(grp)}/{len(grp2)} objects for {n} recorded curves"
        elif not all(type(i) is Indentation for i in grp):
            why = "objects are not nanite.Indentation"
        elif len(set(enums)) != n or enums != sorted(enums):
            why = f"enumerations {enums[:10]} not unique / not in file order"
        elif [i.enum for i in grp2] != enums:
            why = "load_group and IndentationGroup disagree"
        if why:
            run.failing(SITE, key, f"{p.name}: {why}",
                        payload={"kind": "file", "name": p.name},
                        theorem="C20 (one object per curve)")
        check_progress(run, key + "|progress", seq, p.name)
    # folders: several files, multi-curve files not first
    maps = [f for f in files if f.name.endswith(".jpk-force-map")]
    singles = [f for f in files if f.name.endswith(".jpk-force")]
    combos = [[singles[0], maps[0]], [maps[0], singles[0], maps[-1]]]
    if run.tier != "quick":
        combos += [[maps[1], maps[2], singles[1]], singles[:4] + maps[:2]]
    for ci, combo in enumerate(combos):
        d = common.scratch() / f"c20-folder-{ci}"
        shutil.rmtree(d, ignore_errors=True)
        d.mkdir(parents=True)
        # names chosen so that a multi-curve file is NOT the first one found
        for j, f in enumerate(combo):
            shutil.copy(f, d / f"{chr(97 + j)}_{f.name}")
        want = sum(counts[f.name] for f in combo)
        key = f"folder:{ci}"
        run.case({"folder": [f.name for f in combo]}, kind="folder")
        with Callbacks() as cbs, warnings.catch_warnings():
            warnings.simplefilter("ignore")
            try:
                grp = nanite.load_group(d, callback=cbs.cb)
            except BaseException as e:
                run.failing(SITE, key + "|raised", f"folder {ci}: raised "
                            f"{type(e).__name__}: {e}",
                            payload={"kind": "folder", "index": ci})
                continue
        per_file = {}
        for i in grp:
            per_file.setdefault(str(i.path), []).append(i.enum)
        why = None
        if len(grp) != want:
            why = f"{len(grp)} objects for {want} recorded curves"
        elif sorted(len(v) for v in per_file.values()) != sorted(
                counts[f.name] for f in combo) or \
                [k for k, _ in __import__("itertools").groupby(
                    str(i.path) for i in grp)] != list(per_file):
            why = "curves of one file are not contiguous / counts differ"
        elif any(len(set(v)) != len(v) for v in per_file.values()):
            why = "enumerations not unique within a file"
        if why:
            run.failing(SITE, key, f"folder {[f.name for f in combo]}: {why}",
                        payload={"kind": "folder", "index": ci},
                        theorem="C20 (one object per curve)")
        check_progress(run, key + "|progress", cbs.outer,
                       f"folder {[f.name for f in combo]}")
        files_l = "[" + "; ".join(fits.flist(f) for f in cbs.files) + "]"
        exprs.append(f"floats_same (f_all_progress {len(cbs.files)} 0 "
                     f"{files_l}) {fits.flist(cbs.outer)}")
        descr.append(f"progress of folder {ci}")
        shutil.rmtree(d, ignore_errors=True)
    # metadata override
    for p in [singles[0], maps[0]]:
        with warnings.catch_warnings():
            warnings.simplefilter("ignore")
            grp = IndentationGroup(p, meta_override={"spring constant": 0.123})
        run.case({"override": p.name}, kind="override")
        if len(grp) != counts[p.name] or any(
                i.metadata["spring constant"] != 0.123 for i in grp):
            run.failing(SITE, f"override:{p.name}", f"{p.name}: metadata "
                        "override not applied to every curve / count changed",
                        payload={"kind": "override", "name": p.name})
    # the documented switch "load data of any modality"
    # (nanite.read.DEFAULT_MODALITY = None): still one Indentation per curve
    import nanite.read as nread
    from nanite.qmap import QMap as _QMap
    saved_mod = nread.DEFAULT_MODALITY
    try:
        nread.DEFAULT_MODALITY = None
        for p in [singles[0], maps[0]]:
            run.case({"modality-none": p.name}, kind="modality")
            try:
                with warnings.catch_warnings():
                    warnings.simplefilter("ignore")
                    grp = IndentationGroup(p)
                    grp2 = nanite.load_group(p)
                bad = [type(i).__name__ for i in list(grp) + list(grp2)
                       if not isinstance(i, Indentation)]
                if bad or len(grp) != counts[p.name]:
                    run.failing(SITE, f"modality-none:{p.name}",
                                f"{p.name} loaded with DEFAULT_MODALITY=None: "
                                f"{len(grp)} curves of classes "
                                f"{sorted(set(bad)) or 'Indentation'} instead "
                                f"of {counts[p.name]} Indentation objects",
                                payload={"kind": "rerun"},
                                theorem="C20_count")
            except BaseException as e:
                run.failing(SITE, f"modality-none:{p.name}:raised",
                            f"{p.name} with DEFAULT_MODALITY=None raised "
                            f"{type(e).__name__}: {e}",
                            payload={"kind": "rerun"}, theorem="C20_count")
    finally:
        nread.DEFAULT_MODALITY = saved_mod
    csv = DATA / "fmt-afm-workshop-fd_single_2021-10-22_14.16.csv"
    if csv.exists():
        run.case({"file": csv.name}, kind="override")
        try:
            with warnings.catch_warnings():
                warnings.simplefilter("ignore")
                IndentationGroup(csv)
            run.failing(SITE, "csv-without-spring-constant",
                        "a file without spring constant and tip position was "
                        "loaded", payload={"kind": "csv"},
                        theorem="C20_append_guard")
        except MissingMetaDataError:
            pass
        with warnings.catch_warnings():
            warnings.simplefilter("ignore")
            g = IndentationGroup(csv, meta_override={"spring constant": .05})
        if len(g) != 1:
            run.failing(SITE, "csv-with-override", "override did not load "
                        "the csv curve", payload={"kind": "csv"})
        else:
            # the group holds a curve of this file; the same file without
            # the override still lacks spring constant and tip position
            import afmformats
            try:
                with warnings.catch_warnings():
                    warnings.simplefilter("ignore")
                    bare = afmformats.load_data(
                        csv, data_classes_by_modality={
                            "force-distance": Indentation})[0]
                    g.append(bare)
                run.failing(SITE, "csv-appended-without-spring-constant",
                            "a curve without spring constant and tip "
                            "position was appended to a group that already "
                            "held a curve of the same file",
                            payload={"kind": "rerun"},
                            theorem="C20_append_guard")
            except MissingMetaDataError:
                pass
    # the append guard on synthetic curves
    rng = run.rng
    n = 6 if run.tier == "quick" else 40
    for t in range(n):
        grp = IndentationGroup()
        cs, acc, final = [], [], []
        for j in range(rng.randint(1, 6)):
            hk, ht = rng.random() < 0.6, rng.random() < 0.4
            cols = curves.make_arrays(n_app=12, n_ret=6)
            if ht:
                cols["tip position"] = cols["height (measured)"] \
                    + cols["force"] / 0.05
            i = curves.make_indentation(cols, k=0.05 if hk else None)
            hk = "spring constant" in i.metadata
            ht = "tip position" in i
            tagn = 10 * t + j
            cs.append(f"{{| has_spring_constant := {'true' if hk else 'false'}"
                      f"; has_tip_position := {'true' if ht else 'false'}; "
                      f"tag := {tagn} |}}")
            try:
                grp.append(i)
                acc.append(True)
                final.append(tagn)
                i._nv_tag = tagn
            except MissingMetaDataError:
                acc.append(False)
            if acc[-1] != (hk or ht):
                run.failing(
                    SITE, f"append-guard:{t}:{j}",
                    f"a curve with spring constant: {hk}, tip position: {ht} "
                    f"was {'accepted' if acc[-1] else 'refused'} by a group "
                    f"that had answered {acc[:-1]} to the curves before it "
                    "(all of one path)", payload={"kind": "rerun"},
                    theorem="C20_append_guard")
        got = [getattr(i, "_nv_tag", None) for i in grp]
        run.case({"append": acc}, kind="append",
                 nontrivial=(False in acc and True in acc))
        if got != final:
            run.failing(SITE, f"append:{t}", f"group holds {got} after "
                        f"appending with outcomes {acc}",
                        payload={"kind": "append"},
                        theorem="C20_append_guard")
        exprs.append(f"append_agrees [{'; '.join(cs)}] "
                     f"{fits.blist(acc)} [{'; '.join(map(str, final))}]")
        descr.append(f"append sequence {acc}")


# --------------------------------------------------------------------------
# maps
# --------------------------------------------------------------------------
def folder_history_cases(run):
    """one folder (with a nested sub-folder) loaded, changed, loaded again in
    the same process: every load returns one curve object per curve recorded
    in the files the folder holds at that moment"""
    import nanite
    from nanite import read as nread
    files = [f for f in fd_files() if "bad" not in f.name]
    singles = [f for f in files if f.name.endswith(".jpk-force")][:3]
    maps = [f for f in files if f.name.endswith(".jpk-force-map")
            and independent_count(f) >= 2][:2]
    if len(singles) < 2 or not maps:
        run.count("folder-history-data-missing")
        return
    d = common.scratch() / "c20-folder-history"
    shutil.rmtree(d, ignore_errors=True)
    (d / "day1" / "cell2").mkdir(parents=True)
    shutil.copy(singles[0], d / "a.jpk-force")
    shutil.copy(singles[1], d / "day1" / "b.jpk-force")
    steps = [
        ("first load", lambda: None),
        ("a map added in the nested sub-folder", lambda: shutil.copy(
            maps[0], d / "day1" / "cell2" / "m.jpk-force-map")),
        ("a curve added in the sub-folder", lambda: shutil.copy(
            singles[-1], d / "day1" / "c.jpk-force")),
        ("the first sub-folder curve removed", lambda: (
            d / "day1" / "b.jpk-force").unlink()),
        ("a curve added at the top", lambda: shutil.copy(
            singles[1], d / "z.jpk-force")),
        ("a second map added at the top", lambda: shutil.copy(
            maps[-1], d / "0m.jpk-force-map")),
    ]
    for sname, act in steps:
        act()
        want = sum(independent_count(f) for f in sorted(d.rglob("*"))
                   if f.is_file())
        run.case({"folder-history": sname, "curves": want},
                 kind="folder-history")
        try:
            with warnings.catch_warnings():
                warnings.simplefilter("ignore")
                seq = []
                grp = nanite.load_group(d, callback=lambda x: seq.append(
                    float(x)))
                paths = nread.get_data_paths_enum(d) \
                    if hasattr(nread, "get_data_paths_enum") else None
            why = None
            if len(grp) != want:
                why = (f"load_group returned {len(grp)} curves, the folder "
                       f"holds {want}")
            elif paths is not None and len(paths) != want:
                why = (f"get_data_paths_enum lists {len(paths)} curves, the "
                       f"folder holds {want}")
            elif seq and (seq[-1] != 1.0 or any(
                    b < a for a, b in zip(seq, seq[1:]))):
                why = f"progress values {seq[:4]}...{seq[-2:]}"
            else:
                # file order: the curves of one file form one block, in the
                # order that file alone yields them
                got = [(str(c.path), int(c.enum)) for c in grp]
                order = []
                for pth, _ in got:
                    if pth not in order:
                        order.append(pth)
                want_seq = []
                with warnings.catch_warnings():
                    warnings.simplefilter("ignore")
                    for pth in order:
                        want_seq += [(pth, int(c.enum))
                                     for c in nanite.load_group(pth)]
                if got != want_seq:
                    k = next(i for i, (a, b) in enumerate(
                        zip(got, want_seq)) if a != b)
                    why = (f"the curves are not in file order: position {k} "
                           f"holds curve {got[k][1]} of "
                           f"{pathlib.Path(got[k][0]).name}, expected curve "
                           f"{want_seq[k][1]} of "
                           f"{pathlib.Path(want_seq[k][0]).name}")
        except BaseException as e:
            why = f"raised {type(e).__name__}: {e}"
        if why:
            run.failing(SITE, f"folder-history:{sname}", f"after '{sname}': "
                        f"{why}", payload={"kind": "rerun"},
                        theorem="C20_progress / one object per curve")
    shutil.rmtree(d, ignore_errors=True)


def path_spelling_cases(run):
    """the same folder reached through differently spelled paths (absolute,
    with "..", below a hidden folder, relative): one curve object per
    recorded curve each time"""
    import os
    import nanite
    from nanite import read as nread
    files = [f for f in fd_files() if "bad" not in f.name]
    singles = [f for f in files if f.name.endswith(".jpk-force")][:1]
    maps = [f for f in files if f.name.endswith(".jpk-force-map")][:1]
    if not singles or not maps:
        run.count("path-spelling-data-missing")
        return
    top = common.scratch() / "c20-paths"
    shutil.rmtree(top, ignore_errors=True)
    plain = top / "plain" / "data"
    hidden = top / ".local" / "share" / "data"
    for dd in (plain, hidden):
        dd.mkdir(parents=True)
        shutil.copy(singles[0], dd / singles[0].name)
        shutil.copy(maps[0], dd / maps[0].name)
    (top / "plain" / "other").mkdir()
    want = independent_count(singles[0]) + independent_count(maps[0])
    old = os.getcwd()
    spellings = [
        ("absolute", lambda: plain),
        ("with ..", lambda: top / "plain" / "other" / ".." / "data"),
        ("below a hidden folder", lambda: hidden),
        ("relative ../data", lambda: pathlib.Path("..") / "data"),
        ("single file below a hidden folder",
         lambda: hidden / singles[0].name),
    ]
    for sname, mk in spellings:
        run.case({"path-spelling": sname}, kind="path-spelling")
        try:
            os.chdir(top / "plain" / "other")
            with warnings.catch_warnings():
                warnings.simplefilter("ignore")
                pth = mk()
                grp = nanite.load_group(pth)
                n_paths = len(nread.get_data_paths_enum(pth)) \
                    if hasattr(nread, "get_data_paths_enum") else None
            exp = 1 if sname.startswith("single") else want
            why = None
            if len(grp) != exp:
                why = f"load_group returned {len(grp)} curves, {exp} recorded"
            elif n_paths is not None and n_paths != exp:
                why = (f"get_data_paths_enum lists {n_paths} curves, {exp} "
                       "recorded")
        except BaseException as e:
            why = f"raised {type(e).__name__}: {e}"
        finally:
            os.chdir(old)
        if why:
            run.failing(SITE, f"path-spelling:{sname}", f"folder given as "
                        f"'{sname}': {why}", payload={"kind": "rerun"},
                        theorem="C20 (one object per curve)")
    shutil.rmtree(top, ignore_errors=True)


def synthetic_group(shape, order, missing, seed):
    """curves on a grid of the given shape visited in the given scan order"""
    from nanite import IndentationGroup
    xn, yn = shape
    coords = [(x, y) for y in range(yn) for x in range(xn)]
    rng = np.random.default_rng(seed)
    if order == "column":
        coords = [(x, y) for x in range(xn) for y in range(yn)]
    elif order == "serpentine":
        coords = [(x if y % 2 == 0 else xn - 1 - x, y)
                  for y in range(yn) for x in range(xn)]
    elif order == "random":
        rng.shuffle(coords)
    coords = [c for j, c in enumerate(coords) if j not in missing]
    grp = IndentationGroup()
    for j, (x, y) in enumerate(coords):
        cols = curves.make_arrays(n_app=120, n_ret=40, noise=2e-11, rng=rng,
                                  E=float(1000 + 500 * j),
                                  cp=float(1.5e-6 + 1e-7 * (j % 5)))
        md = {"grid index x": x, "grid index y": y, "grid shape x": xn,
              "grid shape y": yn, "grid size x": 1e-5 * xn,
              "grid size y": 1e-5 * yn, "grid center x": 0.0,
              "grid center y": 0.0, "position x": 1e-5 * x,
              "position y": 1e-5 * y}
        i = curves.make_indentation(cols, enum=j, metadata=md,
                                    path="synthetic.jpk-force-map")
        grp.append(i)
    return grp, coords


def ofl(v):
    return "None" if v is None or (isinstance(v, float) and np.isnan(v)) \
        else f"(Some {coq_float(v)})"


def check_map(run, name, grp, coords, shape, exprs, descr, plan):
    """plan: per curve index one of none/fit/fit+rate/fit+rate+refit/
    unsuccessful/clifford"""
    from nanite.qmap import QMap
    xn, yn = shape
    with warnings.catch_warnings():
        warnings.simplefilter("ignore")
        for i, what in zip(grp, plan):
            if what == "none":
                continue
            i.apply_preprocessing(list(PIPE))
            if what == "unsuccessful":
                i.fit_model(model_key="hertz_para", range_type="relative cp",
                            range_x=[1e-3, 2e-3])
                continue
            if what == "fit-fixed-zero":
                # the contact point held fixed at 0 (after the tip offset
                # correction) / the modulus held at the bound 0: fitted
                # values that are exactly zero are values, not "unfitted"
                p0_ = i.get_initial_fit_parameters(model_key="hertz_para")
                p0_["contact_point"].set(value=0.0, vary=False)
                i.fit_model(model_key="hertz_para", params_initial=p0_)
                continue
            if what == "fit-zero-modulus":
                p0_ = i.get_initial_fit_parameters(model_key="hertz_para")
                p0_["E"].set(value=0.0, vary=False)
                i.fit_model(model_key="hertz_para", params_initial=p0_)
                continue
            i.fit_model(model_key="power_layer_clifford_2009"
                        if what == "clifford" else "hertz_para")
            if "rate" in what:
                i.rate_quality(regressor="Decision Tree")
            if "refit" in what:
                # (with a geometrical correction factor: the map shows the
                # contact point in measured units, as the curve reports it)
                i.fit_model(weight_cp=0, range_x=[-2e-6, 2e-6], gcf_k=0.5)
            if "edit" in what:
                # a setting changed without a refit: the curve is unfitted
                i.fit_properties["weight_cp"] = 3e-6
            if "failed" in what:
                try:
                    i.fit_model(range_type="no such type")
                except BaseException:
                    pass
        qm = QMap(grp)
        hashes = {}

        def hid(h):
            return hashes.setdefault(h, len(hashes) + 1)
        feats = {"fit: contact point": "cp", "fit: Young's modulus": "E",
                 "fit: rating": "rating"}
        for feat, short in feats.items():
            key = f"map:{name}:{short}"
            run.case({"map": name, "feature": feat, "plan": plan},
                     kind="map:" + short)
            raised = None
            try:
                with warnings.catch_warnings(record=True) as wl:
                    warnings.simplefilter("always")
                    x, y, m = qm.get_qmap(feat)
            except BaseException as e:
                raised = e
            # expected per-curve values
            want = []
            for i in grp:
                fp = i.fit_properties
                ok = bool(fp.get("success", False))
                if short == "cp":
                    v = fp["params_fitted"]["contact_point"].value * 1e9 \
                        if ok else None
                elif short == "E":
                    v = fp["params_fitted"]["E"].value if ok and "E" in fp[
                        "params_fitted"] else None
                else:
                    r = i._rating
                    v = float(r[-1]) if r is not None and r[0] == fp.get(
                        "hash", "none") else None
                want.append(v)
            needs_e = short == "E" and any(
                i.fit_properties.get("success") and "E" not in
                i.fit_properties["params_fitted"] for i in grp)
            if raised is not None:
                if needs_e and isinstance(raised, KeyError):
                    run.failing(SITE_Q, "map:E:model-without-parameter-E",
                                f"{name}: the modulus map raises KeyError('E')"
                                " for a curve fitted with a model that has no "
                                "parameter named E",
                                payload={"kind": "map", "name": name},
                                theorem="C20_values")
                else:
                    run.failing(SITE_Q, key + "|raised", f"{name}: map "
                                f"'{feat}' raised {type(raised).__name__}: "
                                f"{raised}", payload={"kind": "map",
                                                      "name": name},
                                theorem="C20_values")
                continue
            exp = np.full((yn, xn), np.nan)
            for (cx, cy), v in zip(coords, want):
                exp[cy, cx] = np.nan if v is None else v
            if m.shape != exp.shape or not np.array_equal(m, exp,
                                                          equal_nan=True):
                bad = np.argwhere(~((m == exp) | (np.isnan(m)
                                                  & np.isnan(exp))))
                run.failing(SITE_Q, key, f"{name}: map '{feat}' differs from "
                            "the per-curve current values at pixels (y, x) "
                            f"{bad[:4].tolist()} (plan {plan})",
                            payload={"kind": "map", "name": name,
                                     "plan": plan}, theorem="C20_pixel / "
                            "C20_values")
            nmiss = sum(1 for v in want if v is None)
            if nmiss and not any("has not been" in str(w.message)
                                 for w in wl):
                run.failing(SITE_Q, key + "|warning", f"{name}: no warning "
                            f"although {nmiss} curves have no value",
                            payload={"kind": "map", "name": name},
                            theorem="C20_values")
            # Coq: pixel placement of the per-curve values the map shows
            obs = "[" + "; ".join("[" + "; ".join(
                ofl(float(v)) for v in row) + "]" for row in m) + "]"
            exprs.append(f"grid_same (f_map_grid {xn} {yn} "
                         f"[{'; '.join(f'({a}, {b})' for a, b in coords)}] "
                         f"[{'; '.join(ofl(v) for v in want)}]) {obs}")
            descr.append(f"pixels {name} {short}")
        # a second look through the SAME QMap object after the curves moved
        # on (fitted curves rated with another regressor): the rating map
        # shows the ratings the curves carry now
        try:
            with warnings.catch_warnings():
                warnings.simplefilter("ignore")
                moved = 0
                for i in grp:
                    if i.fit_properties.get("success") and "E" in \
                            i.fit_properties["params_fitted"]:
                        i.rate_quality(regressor="Extra Trees")
                        moved += 1
                x, y, m = qm.get_qmap("fit: rating")
            exp = np.full((yn, xn), np.nan)
            for (cx, cy), i in zip(coords, grp):
                r = i._rating
                if r is not None and r[0] == i.fit_properties.get("hash",
                                                                  "none"):
                    exp[cy, cx] = float(r[-1])
            run.case({"map": name, "second-look": moved, "plan": plan},
                     kind="map:rating-second-look")
            if m.shape != exp.shape or not np.array_equal(m, exp,
                                                          equal_nan=True):
                run.failing(SITE_Q, f"map:{name}:rating|second-look",
                            f"{name}: after {moved} curves were rated again, "
                            "the rating map of the same QMap object does not "
                            f"show their current ratings (plan {plan})",
                            payload={"kind": "rerun"},
                            theorem="C20_values")
        except BaseException as e:
            run.failing(SITE_Q, f"map:{name}:rating|second-look|raised",
                        f"{name}: second look raised {type(e).__name__}: {e}",
                        payload={"kind": "rerun"}, theorem="C20_values")
        # Coq: per-curve feature values from the curve state
        for j, i in enumerate(grp):
            fp = i.fit_properties
            ok = bool(fp.get("success", False))
            pf = fp.get("params_fitted") if ok else None
            e = pf["E"].value if pf is not None and "E" in pf else None
            cp = pf["contact_point"].value if pf is not None else 0.0
            r = i._rating
            st = ("{| success := %s; fitted_E := %s; fitted_cp := %s; "
                  "cur_hash := %d; rating := %s |}" % (
                      "true" if ok else "false", ofl(e), coq_float(cp),
                      hid(fp.get("hash", "none")),
                      "None" if r is None else
                      f"(Some ({hid(r[0])}, {coq_float(float(r[-1]))}))"))
            vals = {}
            for feat, short in feats.items():
                fn = qm._feature_funcs[feat]
                try:
                    with warnings.catch_warnings():
                        warnings.simplefilter("ignore")
                        vals[short] = (float(fn(i)), False)
                except KeyError:
                    vals[short] = (float("nan"), True)
            exprs.append(
                f"ofloat_same (f_feat_contact_point {st}) "
                f"{ofl(vals['cp'][0])} && ofloat_same (f_feat_rating {st}) "
                f"{ofl(vals['rating'][0])} && res_ofloat_same "
                f"(f_feat_youngs_modulus {st}) {ofl(vals['E'][0])} "
                f"{'true' if vals['E'][1] else 'false'}")
            descr.append(f"values {name} curve {j} ({plan[j]})")


def maps(run, exprs, descr):
    from nanite import IndentationGroup
    rng = run.rng
    cfgs = [((3, 2), "row", set()), ((1, 5), "row", {2}),
            ((4, 3), "serpentine", {0, 7})]
    if run.tier != "quick":
        cfgs += [((2, 4), "column", set()), ((5, 5), "random", {3, 4, 20}),
                 ((4, 1), "row", set())]
    kinds = ["none", "fit", "fit+rate", "fit+rate+refit", "unsuccessful",
             "fit+rate+edit", "fit-fixed-zero", "fit+rate+failed",
             "fit-zero-modulus", "fit+rate"]
    for ci, (shape, order, missing) in enumerate(cfgs):
        grp, coords = synthetic_group(shape, order, missing, seed=ci)
        plan = [kinds[(j + ci) % len(kinds)] for j in range(len(grp))]
        check_map(run, f"synthetic:{shape}:{order}", grp, coords, shape,
                  exprs, descr, plan)
    # the layered model has no parameter called E
    grp, coords = synthetic_group((2, 1), "row", set(), seed=50)
    check_map(run, "synthetic:clifford", grp, coords, (2, 1), exprs, descr,
              ["fit", "clifford"])
    # recorded maps
    recs = ["fmt-jpk-fd_map2x2_extracted.jpk-force-map"]
    if run.tier != "quick":
        recs += ["fmt-jpk-fd_map1d_2016-11-07.jpk-force-map",
                 "fmt-jpk-fd_map-data-reference-points.jpk-force-map"]
    for fn in recs:
        with warnings.catch_warnings():
            warnings.simplefilter("ignore")
            grp = IndentationGroup(DATA / fn)
        md = grp[0].metadata
        shape = (int(md["grid shape x"]), int(md["grid shape y"]))
        coords = [(int(i.metadata["grid index x"]),
                   int(i.metadata["grid index y"])) for i in grp]
        plan = [["fit", "fit+rate+edit", "fit+rate+refit", "fit+rate"][j % 4]
                for j in range(len(grp))]
        check_map(run, f"recorded:{fn}", grp, coords, shape, exprs, descr,
                  plan)
    # a map opened from its path: the same pixels as from the group, and a
    # metadata override reaches every curve
    from nanite import QMap
    fn = recs[0]
    for mo in (None, {"spring constant": 0.0625}):
        run.case({"map-from-path": fn, "meta_override": mo},
                 kind="map-from-path")
        key = f"map-from-path:{fn}:{mo is not None}"
        try:
            with warnings.catch_warnings():
                warnings.simplefilter("ignore")
                seq = []
                qp = QMap(DATA / fn, meta_override=mo,
                          callback=lambda x: seq.append(float(x)))
                gg = IndentationGroup(DATA / fn, meta_override=mo)
                qg = QMap(gg)
            why = None
            if len(qp.group) != len(gg):
                why = f"{len(qp.group)} curves, the group has {len(gg)}"
            elif mo and any(c.metadata["spring constant"]
                            != mo["spring constant"] for c in qp.group):
                why = ("spring constants "
                       f"{[c.metadata['spring constant'] for c in qp.group]} "
                       f"with meta_override={mo}")
            elif qp.shape != qg.shape or not np.allclose(qp.extent,
                                                         qg.extent):
                why = "shape/extent differ from the group's map"
            else:
                for feat in ["data: height base point",
                             "data: piezo range", "data: scan order"]:
                    a = qp.get_qmap(feat, qmap_only=True)
                    b_ = qg.get_qmap(feat, qmap_only=True)
                    if not np.array_equal(a, b_, equal_nan=True):
                        why = f"feature {feat!r} differs from the group's map"
                        break
                fa = [np.asarray(c["force"]).tobytes() for c in qp.group]
                fb = [np.asarray(c["force"]).tobytes() for c in gg]
                if why is None and fa != fb:
                    why = "force columns differ from the group's curves"
            if why is None and (not seq or seq[-1] != 1.0 or
                                any(b2 < a2 for a2, b2 in zip(seq, seq[1:]))):
                why = f"progress values {seq[:6]}...{seq[-2:]}"
        except BaseException as e:
            if isinstance(e, (KeyboardInterrupt, SystemExit)):
                raise
            why = f"raised {type(e).__name__}: {e}"
        if why:
            run.failing(SITE_Q, key, f"QMap({fn!r}, meta_override={mo}): {why}",
                        payload={"kind": "rerun"}, theorem="C20_pixel")


def check(run):
    run.sources = common.source_digests(["src/nanite/group.py",
                                         "src/nanite/read.py",
                                         "src/nanite/qmap.py"])
    gen_all.generate_all()
    common.prove(run, "C20", extra_targets=["Model/QMapF.vo"])
    run.trusted = [
        "Coq 8.16.1 kernel + vm_compute with primitive floats; Reals axioms "
        "for C20_progress",
        "coq/Model/QMap.v tied by bit-exact recomputation of the progress "
        "values of folder loads (per-file callbacks captured), of every map's "
        "pixel matrix from the per-curve values, of the three map features "
        "from the curve state, and of append sequences",
    ]
    run.assumptions = [
        "afmformats parses the files (oracle); the number of curves is read "
        "independently from the zip directory of the JPK containers",
        "per-file callbacks of afmformats are non-decreasing within [0, 1] "
        "(hypothesis of C20_progress; asserted on every load)",
        "grid indices are distinct and inside the shape (hypotheses of "
        "C20_pixel_distinct; the general theorem C20_pixel covers clashes)",
    ]
    exprs, descr = [], []
    loading(run, exprs, descr)
    folder_history_cases(run)
    path_spelling_cases(run)
    maps(run, exprs, descr)
    fits.eval_bool_cases(run, "c20_qmap", exprs, descr, head=HEAD, chunk=30)
    run.rule = ("every recorded force-distance file, folders mixing single "
                "curves and maps in several orders, metadata overrides, "
                "append sequences; maps of several shapes and scan orders "
                "with missing pixels and per-curve plans (unfitted, fitted, "
                "rated, refitted after rating, unsuccessful, layered model); "
                "distinct by file / folder / (map, feature)")


def replay(rec):
    return common.replay_by_rerun(sys.modules[__name__], rec)
