"""C08 -- contact-point estimators return a usable, scale-independent index."""
import warnings

import sys

import numpy as np

from .. import common, gen_all, fits
from ..common import coq_float, coq_string
from ..fits import flist
from . import c07

SITE = "nanite.poc.compute_poc"
MINSIZE = {"fit_constant_line": 4, "fit_constant_polynomial": 6,
           "fit_line_polynomial": 7}
# stated accuracy on clean (noise-free, untilted) model curves, as a fraction of
# the clipped approach length; calibrated on the unchanged tree (worst observed
# 0.0 / 0.154 / 0.03 / 0.03 / 0.134 / 0.027) and frozen
ACCURACY = {"deviation_from_baseline": 0.02, "fit_constant_line": 0.25,
            "fit_constant_polynomial": 0.06, "fit_line_polynomial": 0.06,
            "frechet_direct_path": 0.25, "gradient_zero_crossing": 0.06}

HEAD = """From Coq Require Import ZArith String.
From Coq Require Import List Bool PrimFloat.
From NV Require Import Base.Exn Gen.Tables Model.FitCore Model.FitCoreF Model.Steps Model.Poc Model.PocF.
Import ListNotations.
Local Open Scope string_scope.
Definition onat (o : option nat) : option Z := option_map Z.of_nat o.
Definition est (avg sA cA : float) (UF : nat -> list float -> list float)
           (NM : list float -> nat -> option (float * Z)) (m : string) (f : list float)
  : res (option Z) :=
  if String.eqb m "deviation_from_baseline" then Ok (onat (f_deviation avg f))
  else if String.eqb m "frechet_direct_path" then Ok (onat (f_frechet sA cA f))
  else if String.eqb m "gradient_zero_crossing" then Ok (onat (f_gzc 0.01%float UF f))
  else if String.eqb m "fit_constant_line" then Ok (f_fit_based sA cA NM 4 f)
  else if String.eqb m "fit_constant_polynomial" then Ok (f_fit_based sA cA NM 6 f)
  else if String.eqb m "fit_line_polynomial" then Ok (f_fit_based sA cA NM 7 f)
  else Err KeyError.
Definition is_ok (r : res Z) (z : Z) : bool := match r with Ok a => Z.eqb a z | Err _ => false end.
Definition is_err (r : res Z) (e : exn) : bool := match r with Ok _ => false | Err e' => exn_eqb e e' end.
"""


def methods():
    from nanite import poc
    return [m.identifier for m in poc.POC_METHODS]


class Observe:
    """records uniform_filter1d and lmfit.minimize calls made by nanite.poc"""

    def __enter__(self):
        from nanite import poc
        self.poc = poc
        self.uf, self.nm = [], []
        self.o_uf, self.o_min = poc.uniform_filter1d, poc.lmfit.minimize
        me = self

        def uf(arr, size=None, **kw):
            out = me.o_uf(arr, size=size, **kw)
            me.uf.append((int(size), np.array(arr, copy=True),
                          np.array(out, copy=True)))
            return out

        def mini(fcn, params, args=(), **kw):
            start = params["x0"].value
            out = me.o_min(fcn, params, args=args, **kw)
            me.nm.append({"y": np.array(args[1], copy=True),
                          "start": start, "success": bool(out.success),
                          "x0": float(out.params["x0"].value)})
            return out
        poc.uniform_filter1d = uf
        poc.lmfit.minimize = mini
        return self

    def __exit__(self, *a):
        self.poc.uniform_filter1d = self.o_uf
        self.poc.lmfit.minimize = self.o_min


def call(force, meth, ret_details=False):
    from nanite import poc
    with warnings.catch_warnings():
        warnings.simplefilter("ignore")
        return poc.compute_poc(force, meth, ret_details=ret_details)


def is_index(cp, n):
    try:
        return int(cp) == cp and 0 <= cp < n
    except (TypeError, ValueError):
        return False


# --------------------------------------------------------------------------
# inputs
# --------------------------------------------------------------------------
def model_curves(tier, small):
    from nanite import model
    keys = [k for k in ["hertz_para", "hertz_cone", "hertz_pyr3s",
                        "sneddon_spher_approx", "power_layer_clifford_2009"]
            if k in model.models_available]
    out = []
    nrep = 1 if tier == "quick" else 5
    sizes = [130, 170, 220] if small else [300, 600, 1200, 2500]
    seed = 40
    for rep in range(nrep):
        for mk in keys:
            for noise in ([0.0, 2e-11] if tier == "quick" else
                          [0.0, 1e-11, 5e-11]):
                seed += 1
                n_app = sizes[seed % len(sizes)]
                tilt = [0.0, 0.0, 0.08][seed % 3] if noise else 0.0
                cols, k = c07.synthetic(mk, seed, n_app=n_app,
                                        n_ret=n_app // 2, noise=noise,
                                        tilt=tilt)
                f = cols["force"]
                tip = cols["height (measured)"] + f / k
                cpt = float(np.random.default_rng(seed).uniform(0.5e-6,
                                                                2.5e-6))
                idx = int(np.argmax(tip[:n_app] < cpt))
                out.append((f"model:{mk}:{seed}:{noise}:{tilt}", f,
                            idx if (noise == 0 and tilt == 0) else None))
    # clean curves with a tilted baseline (no sample of the gradient falls
    # under the threshold of the zero-crossing estimator: fallback)
    for j, (tilt, p_) in enumerate([(0.1, 1.5), (0.3, 2.0), (0.05, 1.5)]):
        n_app = sizes[j % len(sizes)]
        nb = int(n_app * [0.5, 0.35, 0.6][j])
        i_ = np.arange(n_app + n_app // 2, dtype=float)
        up = np.minimum(i_, n_app - 1.0)
        back = np.maximum(i_ - (n_app - 1.0), 0.0)
        depth = np.maximum(up - back * 2.0 - nb, 0.0)
        f = 1e-9 * (depth / max(n_app - nb, 1)) ** p_ \
            + tilt * 1e-9 * (up - back * 2.0) / n_app
        out.append((f"tilted-clean:{p_}:{tilt}:{n_app}", f, None))
    # a falling baseline with a shallow indentation: the recording starts
    # about as high as it ends (raw maximum at the end of the approach, the
    # smoothed maximum among the first samples)
    for j, top in enumerate([1.002, 1.01]):
        n_app = sizes[(j + 1) % len(sizes)]
        nb = int(n_app * 0.8)
        i_ = np.arange(n_app, dtype=float)
        f = np.where(i_ < nb, 1.0 - i_ / nb,
                     top * ((i_ - nb) / max(n_app - 1 - nb, 1)) ** 2)
        f = np.concatenate([f, f[::-1][1:n_app // 2]]) * 1e-9
        out.append((f"falling-baseline:{top}:{n_app}", f, None))
    return out


def gradient_no_crossing(f):
    """the documented steps 1-5 of the gradient zero-crossing estimator,
    restated: True when no sample of the averaged gradient lies at or below
    1% of its maximum (the estimator then has no answer and compute_poc
    falls back to the middle of the clipped approach data); None when the
    estimator does not get that far"""
    from scipy.ndimage import uniform_filter1d
    f = np.asarray(f, float)
    app = f[:int(np.argmax(f))]
    if app.size < 2:
        return None, app.size
    fs = max(5, int(app.size * .01))
    y = uniform_filter1d(app, size=fs)
    cutoff = y.size - int(np.argmax(y)) + 10
    grad = np.gradient(y)[:-cutoff]
    if grad.size <= 50:
        return None, app.size
    gn = uniform_filter1d(grad, size=fs)
    return bool(not np.any(gn <= 0.01 * np.max(gn))), app.size


def recorded_curves(tier, step):
    out = []
    names = ["fmt-jpk-fd_spot3-0192.jpk-force",
             "fmt-jpk-fd_single_tilted-baseline-drift-"
             "mitotic_2021-01-29.jpk-force"]
    if tier != "quick":
        names += ["fmt-jpk-fd_single_tilted-baseline-shift-adyp_2023-06-26"
                  ".jpk-force",
                  "fmt-jpk-fd_single_bad_2017-01-16_1.jpk-force",
                  "fmt-jpk-fd_single_bad_bead10_2017-04-27.jpk-force",
                  "fmt-jpk-fd_flipsign_2015.05.22-15.31.49.352.jpk-force"]
    from nanite import IndentationGroup
    for fn in names:
        try:
            raw = IndentationGroup(common.REPO / "tests" / "data" / fn)[0]
            f = np.array(raw["force"], copy=True)[::step]
        except BaseException as e:  # pragma: no cover
            print("[C08] cannot load", fn, e)
            continue
        out.append((f"recorded:{fn}:{step}", f, None))
    return out


def degenerate():
    x = np.arange(4000)
    creep = np.clip((x - 2000) / 800.0, 0, 1) ** 1.5 * 1e-9 + x * 1e-15
    return {
        "one": np.array([1.0]),
        "two-up": np.array([0.0, 1.0]),
        "two-down": np.array([1.0, 0.0]),
        "three": np.array([0.0, 0.5, 0.2]),
        "const10": np.ones(10),
        "const100": np.ones(100),
        "zeros": np.zeros(64),
        "decreasing": np.linspace(1, 0, 100),
        "ramp": np.linspace(0, 1, 100),
        "ramp8": np.linspace(0, 1, 8),
        "ramp9": np.linspace(0, 1, 9),
        "short5": np.array([0, 0, 0, 1, 2.0]),
        "short7": np.array([0, 0, 0, 0, 1, 2, 3.0]),
        "short12": np.array([0, 0, 0, 0, 0, 0, 0, .1, .3, .7, 1.2, 2.0]),
        "nobaseline": np.linspace(0, 1, 300) ** 1.5,
        "step": np.concatenate([np.zeros(50), np.ones(50)]),
        "peak-first": np.concatenate([[5.0], np.zeros(50),
                                      np.linspace(0, 1, 50)]),
        "negative-ramp": -np.linspace(0, 1, 80) - 3.0,
        "creeping-plateau": creep,
        "late-contact": np.concatenate([np.zeros(95),
                                        np.linspace(0, 1, 6)[1:]]),
    }


# --------------------------------------------------------------------------
# direct oracle
# --------------------------------------------------------------------------
FIRST = {}


def oracle(run, name, f, truth, meths, degenerate_case=False):
    n = f.size
    for m in meths:
        key = f"{name}|{m}"
        cfg = {"input": name, "method": m, "n": int(n)}
        run.case(cfg, kind=("degenerate" if degenerate_case else
                            name.split(":")[0]) + ":" + m)
        try:
            cp = call(f, m)
            FIRST.setdefault((name, m), cp)
        except BaseException as e:
            run.failing(SITE, key, f"{cfg}: raised {type(e).__name__}: {e} "
                        "instead of falling back to the middle of the data",
                        payload={"kind": "input", "name": name, "method": m},
                        theorem="C08_fallback")
            continue
        if not is_index(cp, n):
            run.failing(SITE, key, f"{cfg}: returned {cp!r}, not a valid "
                        f"index into {n} samples",
                        payload={"kind": "input", "name": name, "method": m},
                        theorem="C08_valid_*")
            continue
        # same answer with details
        try:
            cpd, det = call(f, m, ret_details=True)
            if cpd != cp or not isinstance(det, dict):
                run.failing(SITE, key + "|details", f"{cfg}: ret_details=True "
                            f"returns {cpd!r}, plain call {cp!r}",
                            payload={"kind": "input", "name": name,
                                     "method": m}, theorem="C08_fallback")
        except BaseException as e:
            run.failing(SITE, key + "|details", f"{cfg}: ret_details=True "
                        f"raised {type(e).__name__}: {e}",
                        payload={"kind": "input", "name": name, "method": m},
                        theorem="C08_fallback")
        if m == "gradient_zero_crossing":
            nocross, napp = gradient_no_crossing(f)
            if nocross and cp != napp // 2:
                run.failing(SITE, key + "|fallback", f"{cfg}: no sample of "
                            "the averaged gradient lies under the 1% "
                            "threshold (the estimator has no answer) but "
                            f"the index is {cp}, not the middle "
                            f"{napp // 2} of the {napp} approach samples",
                            payload={"kind": "input", "name": name,
                                     "method": m}, theorem="C08_fallback")
        if degenerate_case:
            continue
        # the same values stored as float32 / as a list / in a strided view
        f32 = f.astype(np.float32)
        for tag, arr in [("float32", f32),
                         ("list", [float(v) for v in f32]),
                         ("strided", np.repeat(f32.astype(float), 2)[::2])]:
            want_ = call(f32.astype(float), m)
            try:
                got_ = call(arr, m)
            except BaseException as e:
                got_ = f"{type(e).__name__}: {e}"
            if got_ != want_:
                run.failing(SITE, key + f"|storage:{tag}", f"{cfg}: the same "
                            f"values given as {tag} -> {got_!r}, as a "
                            f"float64 array -> {want_!r}",
                            payload={"kind": "rerun"}, theorem="C08_valid_*")
        for c, s, exact in [(2.0 ** -20, 0.0, True), (8.0, 0.0, True),
                            (1024.0, 0.0, True), (3.7, 0.0, False),
                            (1.0, 1e-9, False), (0.013, -3e-10, False)]:
            try:
                cp2 = call(c * f + s, m)
            except BaseException as e:
                cp2 = f"{type(e).__name__}"
            ok = (cp2 == cp) if exact else (
                is_index(cp2, n) and abs(cp2 - cp) <= 1)
            if not ok:
                run.failing(SITE, key + f"|{c}|{s}", f"{cfg}: index {cp} "
                            f"becomes {cp2} for force*{c}+{s}",
                            payload={"kind": "input", "name": name,
                                     "method": m, "c": c, "s": s},
                            theorem="C08_invariant_*")
        if truth is not None:
            nc = max(int(np.argmax(f)), 1)
            if abs(cp - truth) > ACCURACY[m] * nc:
                run.failing(SITE, key + "|accuracy", f"{cfg}: estimate {cp} "
                            f"is {abs(cp - truth) / nc:.3f} of the approach "
                            f"length away from the true contact {truth} "
                            f"(stated fraction {ACCURACY[m]})",
                            payload={"kind": "input", "name": name,
                                     "method": m}, theorem="accuracy")


def curve_history(run):
    """Indentation.estimate_contact_point_index after preprocessing, after a
    rejected preprocessing request, after a fit, after new preprocessing: it
    is always the estimate for the force column the curve has NOW"""
    from nanite import IndentationGroup, poc
    path = common.REPO / "tests" / "data" / (
        "fmt-jpk-fd_single_tilted-baseline-drift-mitotic_2021-01-29"
        ".jpk-force")
    if not path.exists():
        run.count("curve-history-data-missing")
        return
    idnt = IndentationGroup(path)[0]
    moves = [
        ("shape-changing preprocessing", lambda: idnt.apply_preprocessing(
            ["compute_tip_position", "correct_tip_offset",
             "correct_force_slope"], options={
                 "correct_tip_offset": {"method": "fit_line_polynomial"},
                 "correct_force_slope": {"region": "all",
                                         "strategy": "drift"}})),
        ("rejected request", lambda: idnt.apply_preprocessing(
            ["correct_tip_offset"])),
        ("offset preprocessing", lambda: idnt.apply_preprocessing(
            ["compute_tip_position", "correct_force_offset"])),
        ("fit", lambda: idnt.fit_model(model_key="hertz_para")),
        ("slope preprocessing again", lambda: idnt.apply_preprocessing(
            ["compute_tip_position", "correct_tip_offset",
             "correct_force_slope"], options={
                 "correct_force_slope": {"region": "all",
                                         "strategy": "drift"}})),
    ]
    meths = ["deviation_from_baseline", "fit_constant_line",
             "gradient_zero_crossing"]
    for mname, mv in moves:
        try:
            with warnings.catch_warnings():
                warnings.simplefilter("ignore")
                mv()
        except BaseException:
            pass
        for m in meths:
            run.case({"curve-history": mname, "method": m},
                     kind="curve-history:" + m)
            try:
                with warnings.catch_warnings():
                    warnings.simplefilter("ignore")
                    got = idnt.estimate_contact_point_index(method=m)
                    want = poc.compute_poc(np.array(idnt["force"], copy=True),
                                           m)
            except BaseException as e:
                got, want = f"{type(e).__name__}: {e}", None
            if got != want:
                run.failing(SITE, f"curve-history|{mname}|{m}",
                            f"after '{mname}': estimate_contact_point_index("
                            f"{m}) = {got!r}, compute_poc on the curve's "
                            f"current force = {want!r}",
                            payload={"kind": "rerun"}, theorem="C08_valid_*")


PROC_SRC = """
import sys, json, warnings
warnings.simplefilter("ignore")
import numpy as np
sys.path.insert(0, %(src)r)
from nanite import poc


def curve(nb, ni):
    x = np.arange(nb + ni, dtype=float)
    f = np.zeros(nb + ni)
    f[nb:] = 2e-13 * (x[nb:] - nb) ** 1.5
    f += 3e-12 * np.sin(np.arange(nb + ni) * 0.7)
    return f


out = []
for nb, ni in %(order)r:
    f = curve(nb, ni)
    row = []
    for m in %(meths)r:
        try:
            row.append(int(poc.compute_poc(f, m)))
        except BaseException as e:
            row.append(type(e).__name__)
    out.append(row)
print(json.dumps(out))
"""


def buffer_reuse_cases(run):
    """one array object analysed, refilled in place with another curve (a
    preallocated buffer; also truncated-and-shifted contents), analysed again:
    the estimate is that of a fresh array holding the same values"""
    crv = model_curves("quick", True)
    pairs = [(crv[i][1], crv[j][1]) for i, j in ((0, 1), (1, 2), (2, 0))
             if max(i, j) < len(crv)]
    for pi, (fa, fb) in enumerate(pairs):
        n = min(len(fa), len(fb))
        fa, fb = np.array(fa[:n], float), np.array(fb[-n:], float)
        for meth in methods():
            key = f"buffer-reuse:{pi}:{meth}"
            run.case({"scenario": "buffer-reuse", "pair": pi, "method": meth},
                     kind="buffer-reuse")
            try:
                buf = fa.copy()
                call(buf, meth)
                buf[:] = fb
                got = call(buf, meth)
                want = call(fb.copy(), meth)
                buf[:] = fa[::-1] * 0.5 + fb
                got2 = call(buf, meth, ret_details=True)
                got2 = got2[0] if isinstance(got2, tuple) else got2
                want2 = call((fa[::-1] * 0.5 + fb).copy(), meth)
            except BaseException as e:
                run.failing(SITE, key, f"raised {type(e).__name__}: {e}",
                            payload={"kind": "rerun"})
                continue
            same = lambda a, b: a == b or (a != a and b != b)
            if not (same(got, want) and same(got2, want2)):
                run.failing(SITE, key, f"{meth}: an array refilled in place "
                            f"gives index {got} / {got2}, a fresh array with "
                            f"the same values {want} / {want2}",
                            payload={"kind": "rerun"},
                            theorem="C08 (function of the force values)")


def process_order_cases(run):
    """the estimate for a curve does not depend on which curves the process
    analysed before: a long curve analysed after very short ones (and after
    another long one) in a new interpreter gets the index it gets when it
    is the first curve of a new interpreter"""
    import json
    import os
    import subprocess
    meths = ["fit_constant_polynomial", "fit_line_polynomial",
             "fit_constant_line", "deviation_from_baseline"]
    long_ = (1000, 3000)
    orders = {"alone": [long_],
              "after-short": [(8, 4), (30, 12), long_],
              "after-other-long": [(2500, 500), long_]}
    if run.tier != "quick":
        orders["after-many"] = [(8, 4), (200, 900), (15, 6), long_]
    res = {}
    for name, order in orders.items():
        env = dict(os.environ)
        env["PYTHONHASHSEED"] = "1"
        r = subprocess.run(
            [sys.executable, "-W", "ignore", "-c", PROC_SRC % {
                "src": str(common.REPO / "src"), "order": order,
                "meths": meths}],
            env=env, capture_output=True, text=True, timeout=600)
        if r.returncode != 0:
            run.obligation("process-order-run", False, r.stderr[-1500:])
            return
        res[name] = json.loads(r.stdout.strip().splitlines()[-1])[-1]
    for name in orders:
        if name == "alone":
            continue
        for m, a, b in zip(meths, res["alone"], res[name]):
            run.case({"process-order": name, "method": m},
                     kind="process-order:" + m)
            if a != b:
                run.failing(SITE, f"process-order|{name}|{m}",
                            f"{m}: a curve of {sum(long_)} samples gets index "
                            f"{b!r} when the process analysed "
                            f"{orders[name][:-1]} (baseline, indentation "
                            f"lengths) before, and {a!r} as the first curve "
                            "of a process", payload={"kind": "rerun"},
                            theorem="C08_invariant_fit_based")


# --------------------------------------------------------------------------
# correspondence with the Coq model (small arrays)
# --------------------------------------------------------------------------
def coq_case(f, m):
    from nanite import poc
    with Observe() as ob:
        try:
            cp = call(f, m)
            outcome = ("ok", int(cp))
        except BaseException as e:
            outcome = ("err", type(e).__name__)
    clipped = poc.compute_preproc_clip_approach(f)
    bl = clipped[:int(clipped.size * .1)]
    avg = float(np.average(bl)) if bl.size else 0.0
    sA, cA = float(np.sin(-np.pi / 4)), float(np.cos(-np.pi / 4))
    uft = "[" + "; ".join(f"({flist(i)}, {flist(o)})"
                          for (_, i, o) in ob.uf) + "]"
    nmt = []
    for r in ob.nm:
        if r["success"] and np.isfinite(r["x0"]):
            val = f"Some ({coq_float(r['x0'])}, ({int(r['x0'])})%Z)"
        else:
            val = "None"
        nmt.append(f"({flist(r['y'])}, ({int(r['start'])}, {val}))")
    nmt = "[" + "; ".join(nmt) + "]"
    ex = (f"let UF := fun (k : nat) l => table_fun {uft} [] l in "
          f"let NM := fun y (i : nat) => match table_fun {nmt} (0, None) y with"
          f" (st, v) => if Nat.eqb st i then v else None end in "
          f"let r := f_compute_poc poc_methods (est {coq_float(avg)} "
          f"{coq_float(sA)} {coq_float(cA)} UF NM) {coq_string(m)} "
          f"{flist(f)} in ")
    if outcome[0] == "ok":
        ex += f"is_ok r ({outcome[1]})%Z"
    else:
        ex += f"is_err r {outcome[1] if outcome[1] in ('ValueError', 'KeyError', 'IndexError') else 'OtherError'}"
    return ex, outcome


def check(run):
    run.sources = common.source_digests(["src/nanite/poc.py"])
    gen_all.generate_all()
    common.prove(run, "C08", extra_targets=["Model/PocF.vo"])
    run.trusted = [
        "Coq 8.16.1 kernel + vm_compute with primitive floats; Reals axioms",
        "coq/Model/Poc.v (one definition, R and binary64 instances) tied by "
        "exact comparison of compute_poc's result on small synthetic, "
        "recorded and degenerate arrays for all six methods",
        "harness observation of scipy.ndimage.uniform_filter1d and "
        "lmfit.minimize as called by nanite.poc (tables of inputs/outputs)",
    ]
    run.assumptions = [
        "uniform_filter1d preserves length and commutes with positive affine "
        "maps (hypotheses of C08_invariant_gradient; exercised by the "
        "metamorphic runs)",
        "int(x0) of a value in [0, n) lies in [0, n) (hypothesis of "
        "C08_valid_fit_based)",
        "Nelder-Mead is an oracle: accuracy on clean curves (fractions "
        f"{ACCURACY}) and invariance within one sample under non-power-of-two "
        "factors are explored, not proved",
        "int(n * .1) == n // 10 and int(n * .01) == n // 100 (swept below)",
        "an empty force array is outside the property (np.argmax raises)",
    ]
    # float-product floors used by the code equal the integer divisions of the model
    ns = np.arange(0, 200001)
    ok = (np.array_equal((ns * .1).astype(int), ns // 10)
          and np.array_equal((ns * .01).astype(int), ns // 100))
    run.obligation("floor-of-float-products(n<=200000)", ok,
                   "int(n*.1) or int(n*.01) differs from n//10, n//100")
    meths = methods()
    # 1. direct oracle on full-size inputs
    curves_ = (model_curves(run.tier, small=False)
               + recorded_curves(run.tier, 1))
    for name, f, truth in curves_:
        oracle(run, name, f, truth, meths)
    for name, f in degenerate().items():
        oracle(run, "degenerate:" + name, f, None, meths, degenerate_case=True)
    # ... nor on what was processed before (the degenerate arrays above):
    # the first curves again, same answers
    for name, f, truth in curves_[:3]:
        for m in meths:
            run.case({"input": name, "method": m, "again": True},
                     kind="after-degenerate:" + m)
            try:
                again = call(f, m)
            except BaseException as e:
                again = f"{type(e).__name__}: {e}"
            if again != FIRST.get((name, m), again):
                run.failing(SITE, f"{name}|{m}|history",
                            f"{name}, {m}: {FIRST[(name, m)]!r} at first, "
                            f"{again!r} after the degenerate arrays were "
                            "processed", payload={"kind": "rerun"},
                            theorem="C08_valid_*")
    curve_history(run)
    process_order_cases(run)
    buffer_reuse_cases(run)
    # unknown method
    try:
        call(np.linspace(0, 1, 50), "no_such_method")
        run.failing(SITE, "unknown-method", "unknown method accepted",
                    payload={"kind": "unknown"}, theorem="C08_unknown_method")
    except ValueError:
        pass
    # 2. correspondence on small inputs
    exprs, descr = [], []
    small = (model_curves(run.tier, small=True)
             + recorded_curves(run.tier, 25 if run.tier == "quick" else 18)
             + [("degenerate:" + k, v, None) for k, v in degenerate().items()
                if v.size <= 300])
    for name, f, _ in small:
        for m in meths + (["no_such_method"] if name.endswith("ramp9")
                          else []):
            ex, outcome = coq_case(f, m)
            exprs.append(ex)
            descr.append(f"{name} {m} impl={outcome}")
            run.count("coq:" + m)
    fits.eval_bool_cases(run, "c08_poc", exprs, descr, head=HEAD, chunk=6)
    run.extra["correspondence_cases"] = len(exprs)
    run.rule = ("every estimator x (model curves of all shipped models x "
                "noise x baseline length x tilt; recorded curves; degenerate "
                "arrays): valid index, no exception, same index with details, "
                "exact invariance under 2^k factors, within one sample under "
                "other factors/shifts, accuracy on clean curves; small inputs "
                "additionally recomputed by the Coq model (binary64); non-"
                "trivial = every (input, method); distinct by that pair")


def replay(rec):
    pl = rec.get("payload") or {}
    if pl.get("kind") != "input":
        return common.replay_by_rerun(sys.modules[__name__], rec)
    name, m = pl["name"], pl["method"]

    class R:
        bad = False

        def failing(self, *a, **k):
            R.bad = True
            return True

        def case(self, *a, **k):
            pass

        def count(self, *a, **k):
            pass
    if name.startswith("degenerate:"):
        oracle(R(), name, degenerate()[name.split(":", 1)[1]], None, [m],
               degenerate_case=True)
        return not R.bad
    for tier in ("quick", "thorough"):
        for nm, f, truth in (model_curves(tier, False)
                             + recorded_curves(tier, 1)):
            if nm == name:
                oracle(R(), nm, f, truth, [m])
                return not R.bad
    return common.replay_by_rerun(sys.modules[__name__], rec)
