import sys
"""C14 -- preprocessing order rules and auto-sorting."""
import itertools
import warnings
import re

from .. import common, gen_tables
from ..common import coq_list

SITE_SORT = "nanite.preproc.autosort"
SITE_APPLY = "nanite.preproc.apply"
SITE_CHECK = "nanite.preproc.check_order"
SITE_AVAIL = "nanite.preproc.available"


def _tables():
    from nanite import preproc
    ids = [p.identifier for p in preproc.PREPROCESSORS]
    def decl(v):
        # one identifier instead of a list of identifiers names that step
        return [v] if isinstance(v, str) else list(v or [])
    req = {p.identifier: decl(p.steps_required)
           for p in preproc.PREPROCESSORS}
    opt = {p.identifier: decl(p.steps_optional)
           for p in preproc.PREPROCESSORS}
    return ids, req, opt


# ---- independent re-statement of the order relation (direct oracle) -------
def decl_closed(sel, req):
    return all(p in req and set(req[p]) <= set(sel) for p in sel)


def decl_ordered(sel, req, opt):
    pos = {}
    for i, p in enumerate(sel):
        pos.setdefault(p, i)
    for i, p in enumerate(sel):
        if p not in req:
            return False
        for r in req[p]:
            if r not in pos or pos[r] > i:
                return False
        for o in opt[p]:
            if o in pos and pos[o] > i:
                return False
    return True


def decl_apply_ok(lst, req):
    for i, p in enumerate(lst):
        if p not in req:
            return "KeyError"
        if not set(req[p]) <= set(lst[:i]):
            return "ValueError"
    return "ok"


# ---- implementation runners ----------------------------------------------
class _FakeCurve:
    """stand-in dataset: acceptance of a list must not depend on what the
    dataset holds (here: it already has a tip position column)"""
    columns_innate = ["force", "height (measured)", "tip position", "segment"]
    columns = columns_innate

    def reset_data(self):
        pass

    def __contains__(self, key):
        return key in self.columns


def _kind(e):
    return type(e).__name__


def impl_autosort(lst):
    from nanite import preproc
    try:
        return ("ok", preproc.autosort(list(lst)))
    except BaseException as e:
        return (_kind(e), None)


def impl_check(lst):
    from nanite import preproc
    try:
        preproc.check_order(list(lst))
        return "ok"
    except BaseException as e:
        return _kind(e)


class StubSteps:
    """Replace the numerical bodies of the registered steps by no-ops that
    carry the same attributes, so that the acceptance logic of the real
    `preproc.apply` can be run on thousands of lists."""

    def __enter__(self):
        from nanite import preproc
        self.preproc = preproc
        self.saved = list(preproc.PREPROCESSORS)
        stubs = []
        for f in self.saved:
            def stub(apret, _f=f):
                return None
            for a in ["identifier", "name", "options", "steps_required",
                      "steps_optional"]:
                setattr(stub, a, getattr(f, a))
            stubs.append(stub)
        preproc.PREPROCESSORS[:] = stubs
        return self

    def __exit__(self, *a):
        self.preproc.PREPROCESSORS[:] = self.saved


def impl_apply(lst, ret_details=False):
    from nanite import preproc
    try:
        preproc.apply(_FakeCurve(), identifiers=list(lst), options={},
                      ret_details=ret_details)
        return "ok"
    except BaseException as e:
        return _kind(e)


# ---- Coq encoding ----------------------------------------------------------
def enc_ids(lst, ids, unk):
    out = []
    for p in lst:
        if p in ids:
            out.append(ids.index(p))
        else:
            if p not in unk:
                unk[p] = len(ids) + len(unk)
            out.append(unk[p])
    return out


def coq_res_list(r, ids, unk):
    kind, val = r
    if kind == "ok":
        return "(Ok " + coq_list([str(i) for i in enc_ids(val, ids, unk)]) + ")"
    return f"(Err {kind})" if kind in ("KeyError", "ValueError") \
        else "(Err OtherError)"


def coq_res_unit(kind):
    if kind == "ok":
        return "(Ok tt)"
    return f"(Err {kind})" if kind in ("KeyError", "ValueError") \
        else "(Err OtherError)"


CASE_HEAD = """From Coq Require Import List Arith Bool.
From NV Require Import Base.Exn Base.PyList Gen.Tables Model.Preproc.
Import ListNotations.
Definition res_list_eqb (a b : res (list nat)) : bool :=
  match a, b with
  | Ok x, Ok y => list_eqb x y
  | Err e, Err f => exn_eqb e f
  | _, _ => false end.
Definition res_unit_eqb (a b : res unit) : bool :=
  match a, b with
  | Ok _, Ok _ => true
  | Err e, Err f => exn_eqb e f
  | _, _ => false end.
Definition agree (c : list nat * res (list nat) * res unit * res unit) : bool :=
  let '(l, rs, rc, ra) := c in
  res_list_eqb (autosort step_table l) rs &&
  res_unit_eqb (check_order step_table l) rc &&
  res_unit_eqb (apply_check step_table l) ra.
Fixpoint bad (i : nat) (cs : list (list nat * res (list nat) * res unit * res unit)) : list nat :=
  match cs with [] => [] | c :: t => if agree c then bad (S i) t else i :: bad (S i) t end.
"""


def correspondence(run, name, lists, ids):
    """run impl on every list, let Coq evaluate the model, return indices
    of disagreeing cases"""
    unk = {}
    rows = []
    impl = []
    with StubSteps():
        for lst in lists:
            rs = impl_autosort(lst)
            rc = impl_check(lst)
            ra = impl_apply(lst)
            impl.append((rs, rc, ra))
            rows.append("(" + coq_list([str(i) for i in enc_ids(lst, ids, unk)])
                        + ", " + coq_res_list(rs, ids, unk) + ", "
                        + coq_res_unit(rc) + ", " + coq_res_unit(ra) + ")")
    text = CASE_HEAD + "Definition cases : list (list nat * res (list nat) * res unit * res unit) := " + coq_list(rows) + ".\n" \
        + "Eval vm_compute in (length cases, bad 0 cases).\n"
    ok, out = common.coq_run(name, text)
    m = re.search(r"=\s*\((\d+),\s*\[(.*?)\]\)", out, flags=re.S)
    if not ok or not m or int(m.group(1)) != len(lists):
        run.obligation(f"correspondence:{name}", False, out[-3000:])
        return impl, None
    badix = [int(x) for x in re.findall(r"\d+", m.group(2))]
    run.obligation(f"correspondence:{name}", not badix,
                   f"{len(badix)} of {len(lists)} cases disagree, e.g. "
                   + "; ".join(str(lists[i]) + " impl=" + str(impl[i])
                               for i in badix[:5]))
    return impl, badix


def oracle(run, lst, impl, ids, req, opt):
    """the property itself, evaluated on the implementation's answers"""
    rs, rc, ra = impl
    key = ",".join(lst)
    nodup = len(set(lst)) == len(lst)
    known = all(p in ids for p in lst)
    if nodup and known:
        valid = decl_ordered(lst, req, opt)
        # check_order is the order relation
        if (rc == "ok") != valid:
            run.failing(SITE_CHECK, key,
                        f"check_order({lst}) -> {rc}, declarative relation "
                        f"says {'valid' if valid else 'invalid'}",
                        payload={"api": "check_order", "list": lst},
                        expected="ok" if valid else "ValueError", observed=rc,
                        theorem="C14_check_order_spec")
        if decl_closed(lst, req):
            good = rs[0] == "ok"
            why = ""
            if not good:
                why = f"raised {rs[0]}"
            else:
                s = rs[1]
                if sorted(s) != sorted(lst):
                    good, why = False, f"not a permutation: {s}"
                elif not decl_ordered(s, req, opt):
                    good, why = False, f"returned order invalid: {s}"
                elif valid and s != list(lst):
                    good, why = False, f"valid order changed to {s}"
                else:
                    r2 = impl_autosort(s)
                    if r2 != ("ok", s):
                        good, why = False, f"not idempotent: {s} -> {r2}"
            if not good:
                run.failing(SITE_SORT, key, f"autosort({lst}): {why}",
                            payload={"api": "autosort", "list": lst},
                            expected="valid permutation", observed=why,
                            theorem="C14_autosort_all")
    exp = decl_apply_ok(lst, req)
    if ra != exp:
        run.failing(SITE_APPLY, key,
                    f"apply({lst}) -> {ra}, expected {exp}",
                    payload={"api": "apply", "list": lst}, expected=exp,
                    observed=ra, theorem="C14_apply_iff")
    # acceptance does not depend on whether details are asked for
    with StubSteps():
        rad = impl_apply(lst, ret_details=True)
    if rad != exp:
        run.failing(SITE_APPLY, key + "|details",
                    f"apply({lst}, ret_details=True) -> {rad}, expected {exp}",
                    payload={"api": "apply", "list": lst}, expected=exp,
                    observed=rad, theorem="C14_apply_iff")


def history_apply(run, ids, req):
    """acceptance must not depend on what was applied to the same curve
    before: for every set of steps that has a valid order, that order is
    applied to ONE curve object and then every permutation of the set (and
    the valid order again) is applied to the same object; each outcome must be
    the declared one"""
    from nanite import preproc
    nbad = 0
    with StubSteps():
        for r in range(2, len(ids) + 1):
            for sub in itertools.combinations(ids, r):
                perms = [list(q) for q in itertools.permutations(sub)]
                valid = [q for q in perms if decl_apply_ok(q, req) == "ok"]
                if not valid:
                    continue
                obj = _FakeCurve()
                history = [valid[0]]
                try:
                    preproc.apply(obj, identifiers=list(valid[0]), options={})
                except BaseException:
                    continue        # reported by the stateless sweep
                for q in perms + [valid[0]]:
                    try:
                        preproc.apply(obj, identifiers=list(q), options={})
                        got = "ok"
                    except BaseException as e:
                        got = _kind(e)
                    exp = decl_apply_ok(q, req)
                    run.case({"history": history[-1], "list": q, "apply": got},
                             nontrivial=True, kind="apply-after-history")
                    if got != exp and nbad < 20:
                        nbad += 1
                        run.failing(
                            SITE_APPLY, "hist:" + ",".join(q),
                            f"apply({q}) on a curve to which {history[-1]} "
                            f"was applied before -> {got}, expected {exp}",
                            payload={"kind": "rerun"}, expected=exp,
                            observed=got, theorem="C14_apply_iff")
                    if got == "ok":
                        history.append(q)


def returned_lists(run, ids, req, opt):
    """autosort / available hand out lists that are the caller's: editing a
    returned list in place must not change what the next call returns"""
    from nanite import preproc
    sels = [list(ids), list(reversed(ids))] + [
        list(s) for s in itertools.permutations(ids, 3)][:20]
    for sel in sels:
        if impl_autosort(sel)[0] != "ok":
            continue
        run.case({"returned-list": sel}, kind="returned-list")
        r1 = preproc.autosort(list(sel))
        want = list(r1)
        for edit in ("pop", "reverse", "clear"):
            r = preproc.autosort(list(sel))
            getattr(r, edit)()
            r2 = preproc.autosort(list(sel))
            if list(r2) != want:
                run.failing(SITE_SORT, "returned-list:" + ",".join(sel),
                            f"autosort({sel}) returns {list(r2)} after the "
                            f"list returned by an earlier call was edited in "
                            f"place ({edit}); before: {want}",
                            payload={"kind": "rerun"},
                            theorem="C14_autosort_permutation")
                break
    av = list(preproc.available())
    a = preproc.available()
    a.pop()
    run.case({"returned-list": "available"}, kind="returned-list")
    if list(preproc.available()) != av:
        run.failing(SITE_AVAIL, "returned-list:available",
                    "available() changed after the list it returned was "
                    "edited in place", payload={"kind": "rerun"},
                    theorem="C14_available_valid")


def deprecated_entry_points(run, ids, req):
    """the deprecated keyword `preproc_names` and the deprecated class
    IndentationPreprocessor accept and reject exactly the same lists"""
    from nanite import preproc
    lists = [list(q) for r in (1, 2, 3) for q in itertools.permutations(ids, r)]
    lists += [["compute_tip_position", "correct_force_slope",
               "correct_tip_offset", "correct_force_offset"],
              ["bogus_step"], []]
    nbad = 0
    with StubSteps(), warnings.catch_warnings():
        warnings.simplefilter("ignore")
        for lst in lists[:: (1 if run.tier != "quick" else 3)]:
            exp = decl_apply_ok(lst, req)
            for how in ("preproc_names", "class"):
                try:
                    if how == "preproc_names":
                        preproc.apply(_FakeCurve(), preproc_names=list(lst),
                                      options={})
                    else:
                        preproc.IndentationPreprocessor.apply(
                            _FakeCurve(), preproc_names=list(lst))
                    got = "ok"
                except BaseException as e:
                    got = _kind(e)
                run.case({"deprecated": how, "list": lst, "apply": got},
                         nontrivial=len(lst) >= 2, kind="apply-deprecated")
                if got != exp and nbad < 20:
                    nbad += 1
                    run.failing(SITE_APPLY, f"deprecated:{how}:" + ",".join(lst),
                                f"apply through the deprecated {how} with "
                                f"{lst} -> {got}, expected {exp}",
                                payload={"kind": "rerun"}, expected=exp,
                                observed=got, theorem="C14_apply_iff")


def check(run):
    from nanite import preproc
    run.sources = common.source_digests(["src/nanite/preproc.py"])
    gen_tables.generate()
    common.prove(run, "C14")
    ids, req, opt = _tables()
    stray = [(p_, r_) for p_ in ids for r_ in req[p_] + opt[p_]
             if r_ not in ids]
    run.obligation("declared-predecessors-are-available-steps", not stray,
                   f"declared but not an available step: {stray[:6]}")
    run.trusted = [
        "Coq 8.16.1 kernel + vm_compute",
        "tools/nv/gen_tables.py (prints PREPROCESSORS by introspection)",
        "hand-written model coq/Model/Preproc.v tied by exhaustive "
        "correspondence on all ordered selections",
        "harness stubs the numerical step bodies while running the real "
        "preproc.apply acceptance logic",
    ]
    run.assumptions = [
        "None and [] requirement declarations are equivalent (they are in "
        "every code path modelled)",
    ]
    # 1. exhaustive correspondence over all ordered selections
    sels = [list(s) for r in range(len(ids) + 1)
            for s in itertools.permutations(ids, r)]
    # 2. lists with repetitions and unknown identifiers
    rng = run.rng
    extra = []
    nrand = 400 if run.tier == "quick" else 4000
    pool = ids + ["bogus_step", "correct_nothing", ""]
    for _ in range(nrand):
        n = rng.randint(1, 8)
        if rng.random() < 0.5:
            lst = [rng.choice(ids) for _ in range(n)]
        else:
            lst = [rng.choice(pool) for _ in range(n)]
        extra.append(lst)
    # minimised corpus first
    corpus = [["correct_force_offset", "compute_tip_position",
               "correct_tip_offset", "correct_force_slope"],
              ["correct_tip_offset"], ["bogus_step"],
              ["compute_tip_position", "bogus_step", "correct_force_slope"]]
    batches = [("c14_corpus", corpus)]
    for i in range(0, len(sels), 500):
        batches.append((f"c14_sel_{i // 500}", sels[i:i + 500]))
    for i in range(0, len(extra), 500):
        batches.append((f"c14_rnd_{i // 500}", extra[i:i + 500]))
    nclosed = 0
    with StubSteps():
        pass
    for name, lists in batches:
        impl, badix = correspondence(run, name, lists, ids)
        with StubSteps():
            for lst, im in zip(lists, impl):
                nodup = len(set(lst)) == len(lst)
                closed = decl_closed(lst, req) if all(p in ids for p in lst) \
                    else False
                nclosed += 1 if (closed and nodup and name.startswith(
                    "c14_sel")) else 0
                kind = ("selection-closed" if closed and nodup else
                        "selection-open" if nodup and all(
                            p in ids for p in lst) else
                        "with-unknown" if not all(p in ids for p in lst)
                        else "with-repetition")
                run.case({"list": lst, "autosort": im[0][0], "check": im[1],
                          "apply": im[2]}, nontrivial=len(lst) >= 2, kind=kind)
                oracle(run, lst, im, ids, req, opt)
    history_apply(run, ids, req)
    returned_lists(run, ids, req, opt)
    deprecated_entry_points(run, ids, req)
    # available() itself
    av = preproc.available()
    if sorted(av) != sorted(ids) or not decl_ordered(av, req, opt):
        run.failing(SITE_AVAIL, "available", f"available() = {av} is not a "
                    "valid order of all steps", payload={"api": "available"},
                    theorem="C14_available_valid")
    run.exhaustive = True
    run.extra["selections_total"] = len(sels)
    run.extra["selections_closed"] = nclosed
    run.rule = ("all ordered selections without repetition of the declared "
                "steps (exhaustive) + random lists with repetitions/unknown "
                "identifiers; non-trivial = length >= 2; distinct by the "
                "canonical (list, outcomes) record")
    # fixed findings must stay fixed (they are inside the exhaustive sweep,
    # replayed here explicitly by id)
    for k in common.load_known():
        if k["property"] == "C14" and k.get("status") == "fixed":
            okk = all(replay({"payload": {"api": "autosort", "list": lst}})
                      for lst in k["match"].get("inputs", []))
            run.fixed_must_pass(k["id"], okk)


def replay(rec):
    ids, req, opt = _tables()
    pl = rec["payload"]
    lst = pl["list"]

    class R:  # minimal stand-in collecting failures
        bad = False

        def failing(self, *a, **k):
            R.bad = True
    with StubSteps():
        im = (impl_autosort(lst), impl_check(lst), impl_apply(lst))
        oracle(R(), lst, im, ids, req, opt)
    return not R.bad
