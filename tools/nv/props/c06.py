"""C06 -- preprocessing is a pure, repeatable function of raw data, steps
and options."""
import copy

import sys

import numpy as np

from .. import common, gen_all, curves, m1
from ..pyval import canon
from .c03 import same_arr

SITE = "nanite.indent.Indentation.apply_preprocessing"


def catalogue(tier):
    reqs = []
    for p in m1.VALID_PIPES:
        reqs.append((p, {}))
    reqs.append((m1.VALID_PIPES[3], m1.VALID_OPTS[3]))
    reqs.append((m1.VALID_PIPES[3], m1.VALID_OPTS[4]))
    reqs.append((m1.VALID_PIPES[5], m1.VALID_OPTS[5]))
    reqs.append((m1.VALID_PIPES[5], m1.VALID_OPTS[6]))
    # an (empty) options entry for a step that is not in the pipeline is
    # legitimate and ignored: these are different requests from the pipeline
    # that contains the step
    reqs.append((m1.VALID_PIPES[2], {"correct_tip_offset": {}}))
    reqs.append((m1.VALID_PIPES[1], {"correct_force_offset": {}}))
    for p in m1.INVALID_PIPES:
        reqs.append((p, {}))
    for o in m1.INVALID_OPTS:
        reqs.append((m1.VALID_PIPES[5], o))
    if tier != "quick":
        for meth in ["fit_constant_line", "fit_constant_polynomial",
                     "fit_line_polynomial"]:
            reqs.append((m1.VALID_PIPES[3],
                         {"correct_tip_offset": {"method": meth}}))
        for reg in ["baseline", "approach", "all"]:
            for st in ["shift", "drift"]:
                reqs.append((m1.VALID_PIPES[5],
                             {"correct_force_slope": {"region": reg,
                                                      "strategy": st}}))
    return reqs


def snapshot(idnt):
    return {c: np.array(idnt[c], copy=True) for c in idnt.columns}


def raw_snapshot(idnt):
    return {c: np.array(v, copy=True) for c, v in idnt._raw_data.items()}


def try_apply(idnt, p, o, via_fit=False):
    try:
        if via_fit:
            idnt.fit_model(preprocessing=copy.deepcopy(p),
                           preprocessing_options=copy.deepcopy(o))
        else:
            idnt.apply_preprocessing(copy.deepcopy(p), copy.deepcopy(o))
        return "ok"
    except BaseException as e:
        if isinstance(e, (KeyboardInterrupt, SystemExit, MemoryError)):
            raise
        return type(e).__name__


def reference(cols, req, cache):
    """outcome and columns of the request on a fresh curve"""
    key = common.sha(canon(req))
    if key not in cache:
        f = curves.make_indentation(cols)
        out = try_apply(f, *req)
        cache[key] = (out, snapshot(f) if out == "ok" else None)
    return cache[key]


def diff_cols(a, b):
    if sorted(a) != sorted(b):
        return f"column sets differ: {sorted(a)} vs {sorted(b)}"
    for c in a:
        if not same_arr(a[c], b[c]):
            return f"column '{c}' differs"
    return None


def pair_oracle(run, cols, A, B, cache, via_fit=False):
    refB = reference(cols, B, cache)
    idnt = curves.make_indentation(cols)
    raw0 = raw_snapshot(idnt)
    try_apply(idnt, *A)
    if via_fit and refB[0] == "ok" and "tip position" not in refB[1]:
        return          # fit_model would fail for lack of an abscissa
    outB = try_apply(idnt, *B, via_fit=via_fit)
    key = "pair:" + common.sha([canon(A), canon(B), via_fit])[:16]
    payload = {"kind": "pair", "A": canon(A), "B": canon(B),
               "via_fit": via_fit}
    run.case({"A": canon(A), "B": canon(B), "via_fit": via_fit,
              "outcome": outB}, kind=("via-fit-" if via_fit else "")
             + ("accepted" if outB == "ok" else "rejected"))

    def fail(why, thm):
        run.failing(SITE, key, f"after {canon(A)} then {canon(B)}"
                    f"{' (through fit_model)' if via_fit else ''}: {why}",
                    payload=payload, observed=why, theorem=thm)
    # independently of any reference curve: a list that names an unknown
    # step or puts a step before one it requires is refused (declared
    # requirements, as restated for C14)
    from . import c14
    _ids, _req, _opt = c14._tables()
    declared = c14.decl_apply_ok(list(B[0]), _req)
    if declared != "ok" and outB == "ok":
        fail(f"the request is accepted although the declared requirements "
             f"refuse it ({declared})", "C06_rejected_again")
        return
    if (outB == "ok") != (refB[0] == "ok") and not via_fit:
        fail(f"outcome {outB} but a fresh curve gives {refB[0]}",
             "C06_execute_or_skip")
        return
    if d := diff_cols(raw0, raw_snapshot(idnt)):
        fail("recorded raw data modified: " + d, "C06 (raw immutable)")
    if outB == "ok" and refB[0] == "ok":
        now = snapshot(idnt)
        for c in ["fit", "fit residuals", "fit range"]:
            now.pop(c, None)
        d = diff_cols(now, refB[1])
        if d:
            fail("columns differ from the same request on a fresh curve: "
                 + d, "C06_execute_or_skip")
        if canon(idnt.preprocessing) != canon(list(B[0]) if isinstance(
                B[0], tuple) else B[0]) and canon(idnt.preprocessing) \
                != canon(B[0]):
            fail(f"reports pipeline {idnt.preprocessing}", "C06")
        # re-applying changes nothing
        before = snapshot(idnt)
        st0 = m1.alpha(idnt)
        try_apply(idnt, *B)
        if diff_cols(before, snapshot(idnt)) or m1.alpha(idnt) != st0:
            fail("re-applying the same request changed the curve",
                 "C06_reapply_identity")
    elif outB != "ok" and not via_fit:
        # rejected: not remembered, rejected again
        fpp = idnt.fit_properties.get("preprocessing", None)
        if canon(fpp) == canon(B[0]) or (canon(idnt.preprocessing)
                                         == canon(B[0]) and B[0]):
            fail("rejected request is reported as applied",
                 "C06_rejected_not_remembered")
        out2 = try_apply(idnt, *B)
        if out2 == "ok":
            fail("rejected request accepted when repeated",
                 "C06_rejected_again")


def shared_object_cases(run, cols, reqs, cache):
    """request A with the caller's own list / dict objects, then the caller
    edits these very objects in place into request B and passes them again:
    the columns must be those of B on a fresh curve (what counts is the value
    at the time of the call)"""
    ok = [r for r in reqs if isinstance(r[0], list) and r[0]
          and (r[1] is None or isinstance(r[1], dict))
          and reference(cols, r, cache)[0] == "ok"]
    pairs = [(A, B) for A in ok for B in ok if canon(A) != canon(B)]
    step = max(1, len(pairs) // (30 if run.tier == "quick" else 300))
    for A, B in pairs[::step]:
        refB = reference(cols, B, cache)
        idnt = curves.make_indentation(cols)
        steps = copy.deepcopy(A[0])
        opts = copy.deepcopy(A[1]) if A[1] is not None else {}
        key = "shared:" + common.sha([canon(A), canon(B)])[:16]
        payload = {"kind": "rerun"}
        run.case({"A": canon(A), "B": canon(B), "shared-objects": True},
                 kind="shared-objects")
        try:
            idnt.apply_preprocessing(steps, opts)
            steps[:] = copy.deepcopy(B[0])
            opts.clear()
            opts.update(copy.deepcopy(B[1]) if B[1] is not None else {})
            idnt.apply_preprocessing(steps, opts)
        except BaseException as e:
            if isinstance(e, (KeyboardInterrupt, SystemExit, MemoryError)):
                raise
            run.failing(SITE, key, f"{canon(A)} then (same objects edited "
                        f"in place) {canon(B)}: raised {type(e).__name__}: "
                        f"{e}", payload=payload)
            continue
        now = snapshot(idnt)
        d = diff_cols(now, refB[1])
        if d:
            run.failing(SITE, key, f"{canon(A)} then, with the same list / "
                        f"dict objects edited in place, {canon(B)}: columns "
                        "differ from the second request on a fresh curve: "
                        + d, payload=payload, theorem="C06_execute_or_skip")


def estimate_between_cases(run):
    """pipeline A (with a slope correction that moves the contact point
    estimate), then calls that estimate the contact point on A's data
    (fit_model with the library's own guess, estimate_contact_point_index),
    then pipeline B: B's columns are those of B on a fresh curve"""
    from . import c07
    cols, k = c07.synthetic("hertz_para", 5, tilt=0.25, drift=0.1, lag=0,
                            noise=5e-11, n_app=160, n_ret=80)
    A = (["compute_tip_position", "correct_tip_offset", "correct_force_slope"],
         {"correct_force_slope": {"region": "all", "strategy": "drift"},
          "correct_tip_offset": {"method": "fit_constant_line"}})
    Bs = [(["compute_tip_position", "correct_tip_offset"],
           {"correct_tip_offset": {"method": "fit_constant_line"}}),
          (["compute_tip_position", "correct_force_offset",
            "correct_tip_offset"],
           {"correct_tip_offset": {"method": "fit_constant_line"}}),
          (["compute_tip_position", "correct_tip_offset"],
           {"correct_tip_offset": {"method": "deviation_from_baseline"}})]
    for between in ("fit_model", "estimate", "both"):
        for B in Bs:
            fresh = curves.make_indentation(cols, k=k)
            fresh.apply_preprocessing(copy.deepcopy(B[0]),
                                      copy.deepcopy(B[1]))
            ref = snapshot(fresh)
            idnt = curves.make_indentation(cols, k=k)
            key = "estimate-between:" + common.sha([between, canon(B)])[:16]
            run.case({"A": canon(A), "between": between, "B": canon(B)},
                     kind="estimate-between")
            try:
                import warnings
                with warnings.catch_warnings():
                    warnings.simplefilter("ignore")
                    idnt.apply_preprocessing(copy.deepcopy(A[0]),
                                             copy.deepcopy(A[1]))
                    if between in ("fit_model", "both"):
                        idnt.fit_model(model_key="hertz_para")
                    if between in ("estimate", "both"):
                        for m in ("fit_constant_line",
                                  "deviation_from_baseline"):
                            idnt.estimate_contact_point_index(method=m)
                    idnt.apply_preprocessing(copy.deepcopy(B[0]),
                                             copy.deepcopy(B[1]))
                now = snapshot(idnt)
                for c in ["fit", "fit residuals", "fit range"]:
                    now.pop(c, None)
                d = diff_cols(now, ref)
            except BaseException as e:
                d = f"raised {type(e).__name__}: {e}"
            if d:
                run.failing(SITE, key, f"{canon(A)}, then {between}, then "
                            f"{canon(B)}: columns differ from the last "
                            "request on a fresh curve: " + d,
                            payload={"kind": "rerun"},
                            theorem="C06_execute_or_skip")


def details_history_cases(run, cols, reqs):
    """a request served WITH details (ret_details=True), then another request
    (other steps, other options, an invalid one) without: the second request
    is executed or rejected exactly as on a fresh curve"""
    import warnings
    firsts = [r_ for r_ in reqs if r_[0] and len(r_[0]) >= 2][:3]
    for A in firsts:
        for B in reqs[::2]:
            key = "details-history:" + common.sha([canon(A), canon(B)])[:16]
            run.case({"A(with details)": canon(A), "B": canon(B)},
                     kind="details-history")
            try:
                with warnings.catch_warnings():
                    warnings.simplefilter("ignore")
                    fresh = curves.make_indentation(cols)
                    try:
                        fresh.apply_preprocessing(copy.deepcopy(B[0]),
                                                  copy.deepcopy(B[1]))
                        want = "ok"
                    except BaseException as e:
                        want = type(e).__name__
                    a = curves.make_indentation(cols)
                    try:
                        a.apply_preprocessing(copy.deepcopy(A[0]),
                                              copy.deepcopy(A[1]),
                                              ret_details=True)
                    except BaseException:
                        continue            # A itself is not valid
                    try:
                        a.apply_preprocessing(copy.deepcopy(B[0]),
                                              copy.deepcopy(B[1]))
                        got = "ok"
                    except BaseException as e:
                        got = type(e).__name__
                why = None
                if got != want:
                    why = (f"the second request ends with {got}, on a fresh "
                           f"curve with {want}")
                elif got == "ok":
                    d = diff_cols(snapshot(a), snapshot(fresh))
                    if d:
                        why = "columns differ from a fresh curve: " + d
            except BaseException as e:
                why = f"raised {type(e).__name__}: {e}"
            if why:
                run.failing(SITE, key, f"{canon(A)} with details, then "
                            f"{canon(B)}: {why}", payload={"kind": "rerun"},
                            theorem="C06_execute_or_skip")


def segment_history_cases(run):
    """two pipelines that both discover the segments and then smooth the
    height, one with and one without a slope correction that moves the
    turning point, applied one after the other to the same curve object (both
    orders): the columns are those of the second pipeline on a fresh curve,
    and the approach / retract views agree with the segment column"""
    import warnings
    from . import c07
    from nanite import IndentationGroup
    base = ["compute_tip_position", "correct_force_offset",
            "correct_tip_offset"]
    PA = (base + ["correct_split_approach_retract", "smooth_height"], {})
    PB = (base + ["correct_force_slope", "correct_split_approach_retract",
                  "smooth_height"],
          {"correct_force_slope": {"region": "all", "strategy": "drift"}})
    PC = (base + ["correct_force_slope", "correct_split_approach_retract",
                  "smooth_height"],
          {"correct_force_slope": {"region": "approach",
                                   "strategy": "shift"}})
    # the same steps with different contact-point methods for the tip offset
    # (the split step itself takes no option: its result must not follow the
    # method remembered from the request before)
    PD = (PA[0], {"correct_tip_offset": {"method": "fit_line_polynomial"}})
    PE = (PA[0], {"correct_tip_offset": {"method": "gradient_zero_crossing"}})
    makers = []
    for sd, lag in ((7, 6), (8, 11)):
        cols, k = c07.synthetic("hertz_para", sd, tilt=0.4, drift=0.3,
                                lag=lag, noise=2e-10, n_app=220, n_ret=140)
        makers.append((f"synthetic:{sd}", lambda cols=cols, k=k:
                       curves.make_indentation(cols, k=k)))
    path = common.REPO / "tests" / "data" / (
        "fmt-jpk-fd_single_tilted-baseline-drift-mitotic_2021-01-29"
        ".jpk-force")
    if path.exists():
        makers.append(("recorded:tilted", lambda: IndentationGroup(path)[0]))
    for fn, ci in (("fmt-jpk-fd_map1d_2016-11-07.jpk-force-map", 2),
                   ("fmt-jpk-fd_map-data-reference-points.jpk-force-map", 1)):
        pth = common.REPO / "tests" / "data" / fn
        if pth.exists():
            makers.append((f"recorded:{fn[11:20]}:{ci}",
                           lambda pth=pth, ci=ci: IndentationGroup(pth)[ci]))
    moved = 0
    for cname, mk in makers:
        for first, second in ((PA, PB), (PB, PA), (PA, PC), (PC, PA),
                              (PD, PA), (PA, PD), (PD, PE), (PE, PD)):
            key = "segment-history:" + common.sha(
                [cname, canon(first), canon(second)])[:16]
            run.case({"curve": cname, "first": canon(first),
                      "second": canon(second)}, kind="segment-history")
            try:
                with warnings.catch_warnings():
                    warnings.simplefilter("ignore")
                    fresh = mk()
                    fresh.apply_preprocessing(copy.deepcopy(second[0]),
                                              copy.deepcopy(second[1]))
                    ref = snapshot(fresh)
                    f1 = mk()
                    f1.apply_preprocessing(copy.deepcopy(first[0]),
                                           copy.deepcopy(first[1]))
                    if not np.array_equal(np.asarray(f1["segment"]),
                                          np.asarray(fresh["segment"])):
                        moved += 1
                    f1.apply_preprocessing(copy.deepcopy(second[0]),
                                           copy.deepcopy(second[1]))
                    d = diff_cols(snapshot(f1), ref)
                    if not d:
                        seg = np.asarray(f1["segment"])
                        for view, val in ((f1.appr, 0), (f1.retr, 1)):
                            got = np.asarray(view["force"])
                            want = np.asarray(f1["force"])[seg == val]
                            if got.shape != want.shape or \
                                    got.tobytes() != want.tobytes():
                                d = ("the approach / retract view holds "
                                     f"{got.size} samples, the segment "
                                     f"column marks {want.size}")
            except BaseException as e:
                d = f"raised {type(e).__name__}: {e}"
            if d:
                run.failing(SITE, key, f"{cname}: {canon(first)}, then "
                            f"{canon(second)}: differs from the second "
                            "request on a fresh curve: " + d,
                            payload={"kind": "rerun"},
                            theorem="C06_execute_or_skip")
    run.count(f"segment-history-pairs-with-different-splits:{moved}")


def check(run):
    run.sources = common.source_digests(["src/nanite/indent.py",
                                         "src/nanite/preproc.py"])
    gen_all.generate_all()
    common.prove(run, "C06", extra_targets=["Model/CurveEq.vo"])
    run.trusted = [
        "Coq 8.16.1 kernel + vm_compute",
        "hand-written model coq/Model/Curve.v (apply_pre_x, fit_model_x) "
        "tied by stepwise correspondence; what each step computes is the "
        "oracle o_pre (see C07)",
        "tools/nv/gen_tables.py, tools/nv/m1.py (abstraction, capture)",
    ]
    run.assumptions = [
        "every preprocessing step is a deterministic function of the "
        "columns it reads (exercised bit for bit against fresh curves)",
        "afmformats keeps raw data in _raw_data (observed, not modelled)",
    ]
    # 1. stepwise model correspondence, preprocessing-heavy histories
    from .c03 import explore
    w = {"ApplyPre": 6, "FitModel": 4, "SetFP": 1, "Rate": 0.5,
         "EModMinDelta": 0.1, "GetInit": 0.5}
    explore(run, 25 if run.tier == "quick" else 300, "c06_hist", weights=w,
            seed_off=1000, oracle=False)
    # 2. all ordered pairs of the request catalogue
    cols = m1.small_curve(21, n_app=80, n_ret=40)
    reqs = catalogue(run.tier)
    cache = {}
    for A in reqs:
        for B in reqs:
            pair_oracle(run, cols, A, B, cache)
    for A in reqs[::3]:
        for B in reqs[::2]:
            pair_oracle(run, cols, A, B, cache, via_fit=True)
    shared_object_cases(run, cols, reqs, cache)
    estimate_between_cases(run)
    segment_history_cases(run)
    details_history_cases(run, cols, reqs)
    if run.tier != "quick":
        from nanite import IndentationGroup
        import pathlib
        for fn in ["fmt-jpk-fd_spot3-0192.jpk-force",
                   "fmt-jpk-fd_single_tilted-baseline-drift-"
                   "mitotic_2021-01-29.jpk-force"]:
            path = common.REPO / "tests" / "data" / fn
            raw = IndentationGroup(path)[0]
            rcols = {c: np.array(raw[c], copy=True) for c in raw.columns}
            rc = {}
            for A in reqs[::2]:
                for B in reqs[::3]:
                    pair_oracle(run, rcols, A, B, rc)
    run.extra["catalogue_size"] = len(reqs)
    run.rule = ("all ordered pairs (A then B) of a catalogue of valid and "
                "invalid (steps, options) requests on a synthetic curve, also "
                "through fit_model(preprocessing=...); plus random histories "
                "compared stepwise with the Coq model; non-trivial = every "
                "pair; distinct by canonical (A, B, path)")


def replay(rec):
    pl = rec.get("payload") or {}
    if pl.get("kind") != "pair":
        return common.replay_by_rerun(sys.modules[__name__], rec)

    class R:
        bad = False

        def failing(self, *a, **k):
            R.bad = True

        def case(self, *a, **k):
            pass

    def dec(x):
        if isinstance(x, dict) and "dict" in x:
            return {k: dec(v) for k, v in x["dict"]}
        if isinstance(x, dict) and "tuple" in x:
            return tuple(dec(v) for v in x["tuple"])
        if isinstance(x, list):
            return [dec(v) for v in x]
        return x
    cols = m1.small_curve(21, n_app=80, n_ret=40)
    pair_oracle(R(), cols, dec(pl["A"]), dec(pl["B"]), {},
                via_fit=pl.get("via_fit", False))
    return not R.bad
