"""C16 -- rating containers round-trip and only ever grow."""
import copy
import json
import hashlib
import pathlib
import shutil
import warnings

import sys

import numpy as np

from .. import common, gen_all, fits
from ..common import coq_string

SITE = "nanite.rate.io"
DATA = common.REPO / "tests" / "data"
PIPE = ["compute_tip_position", "correct_force_offset", "correct_tip_offset"]
DSETS = ["fit", "fit range", "force", "fit residuals", "tip position",
         "segment"]

HEAD = """From Coq Require Import String.
From Coq Require Import List Bool Arith.
From NV Require Import Base.Exn Model.Container.
Import ListNotations.
Local Open Scope string_scope.
Definition amap_eqb {V} (e : V -> V -> bool) (a b : list (string * V)) : bool :=
  Nat.eqb (length a) (length b) &&
  forallb (fun kv => match aget (fst kv) b with Some v => e (snd kv) v | None => false end) a.
Definition ostr_eqb (a b : option string) : bool :=
  match a, b with Some x, Some y => String.eqb x y | None, None => true | _, _ => false end.
Definition data_eqb (a b : string * option string) : bool :=
  String.eqb (fst a) (fst b) && ostr_eqb (snd a) (snd b).
Definition group_eqb (a b : group) : bool :=
  amap_eqb String.eqb (gattrs a) (gattrs b) && amap_eqb String.eqb (gdsets a) (gdsets b).
Definition h5_eqb (a b : h5) : bool :=
  amap_eqb data_eqb (hdata a) (hdata b) && amap_eqb group_eqb (hana a) (hana b).
Definition oexn_eqb (a b : option exn) : bool :=
  match a, b with Some x, Some y => exn_eqb x y | None, None => true | _, _ => false end.
Fixpoint subset (a b : list string) : bool :=
  match a with [] => true | x :: t => existsb (String.eqb x) b && subset t b end.
Definition load_ids (s : h5) : option (list string) :=
  match load s with Ok rs => Some (map rid rs) | Err _ => None end.
Definition ids_eqb (a : option (list string)) (b : option (list string)) : bool :=
  match a, b with
  | Some x, Some y => subset x y && subset y x && Nat.eqb (length x) (length y)
  | None, None => true
  | _, _ => false
  end.
(* save interrupted after n modelled write calls (n = None: not interrupted) *)
Definition agrees (s0 : h5) (c : curve) (u : list (string * string)) (n : option nat)
           (post : h5) (exn : option exn) (loaded : option (list string)) : bool :=
  let ws := save_writes String.eqb s0 c u in
  let s1 := match n with Some k => save_upto k String.eqb s0 c u | None => save String.eqb s0 c u end in
  h5_eqb s1 post && ids_eqb (load_ids s1) loaded &&
  match n with None => oexn_eqb (snd ws) exn | Some _ => true end.
"""


def dig(x):
    """short canonical digest of a stored payload"""
    if isinstance(x, np.ndarray):
        b = x.tobytes() + str(x.dtype).encode() + str(x.shape).encode()
    elif isinstance(x, bytes):
        b = x
    elif isinstance(x, (float, np.floating)):
        b = repr(float(x)).encode()
    elif isinstance(x, (bool, np.bool_)):
        b = repr(bool(x)).encode()
    elif isinstance(x, (int, np.integer)):
        b = repr(int(x)).encode()
    else:
        b = str(x).encode()
    return hashlib.sha1(b).hexdigest()[:10]


TIMEKEYS = ("user time", "user time str")


# --------------------------------------------------------------------------
# curves
# --------------------------------------------------------------------------
def load_curves(fn):
    from nanite import IndentationGroup
    return list(IndentationGroup(DATA / fn))


def fit_curve(idnt, **kw):
    with warnings.catch_warnings():
        warnings.simplefilter("ignore")
        idnt.apply_preprocessing(kw.pop("preprocessing", list(PIPE)),
                                 options=kw.pop("preprocessing_options", None))
        idnt.fit_model(**kw)
    return idnt


FITS = [
    dict(model_key="hertz_para"),
    dict(model_key="hertz_cone", range_x=(-2e-6, 1e-6), weight_cp=1e-6),
    dict(model_key="hertz_para", range_type="relative cp",
         range_x=[-1.5e-6, 5e-7], gcf_k=0.5),
    dict(model_key="hertz_pyr3s", segment="retract", method="nelder",
         method_kws={"max_nfev": 300}),
    dict(model_key="sneddon_spher_approx",
         range_x=[np.float64(-2e-6), np.float64(1e-6)], weight_cp=False,
         preprocessing=PIPE + ["correct_force_slope"],
         preprocessing_options={"correct_force_slope": {
             "region": "baseline", "strategy": "shift"},
             "correct_tip_offset": {"method": "fit_constant_line"}}),
    dict(model_key="hertz_para", optimal_fit_edelta=True,
         optimal_fit_num_samples=9, range_x=[0, 1e-6]),
]


def modelled_curve(idnt):
    """what save_hdf5 reads from the curve, as digests (model record)"""
    from nanite.rate import io
    import json
    dhash = io.hash_file(idnt.path)
    attrs = [("data enum", dig(idnt.enum)), ("data hash", dhash)]
    for key in idnt.fit_properties:
        val = idnt.fit_properties[key]
        if key.startswith("params_"):
            val = val.dumps()
        elif key == "preprocessing":
            val = ",".join(val)
        elif key in ["preprocessing_options", "method_kws"]:
            val = json.dumps(val)
        elif key == "range_x":
            val = str(tuple(float(v) for v in val))
        attrs.append(("fit " + key, dig(np.asarray(val))
                      if isinstance(val, (list, tuple, np.ndarray))
                      else dig(val)))
    return {
        "chash": dhash, "cid": f"{dhash}_{idnt.enum}",
        "cblob": dig(np.fromfile(str(idnt.path), dtype=bool)),
        "cpath": dig(str(idnt.path)),
        "cattrs": attrs,
        "cdsets": [(n, dig(np.asarray(idnt[n][...]))) for n in DSETS[1:]],
        "cfit": dig(np.asarray(idnt["fit"][...])),
    }


def user_attrs(rate, name, comment):
    from nanite._version import version
    import h5py
    return [("user comment", dig(comment)), ("user name", dig(name)),
            ("user rate", dig(rate)), ("user time", "T"),
            ("user time str", "T"), ("nanite version", dig(version)),
            ("h5py version", dig(h5py.__version__))]


def dump(path):
    """canonical tree of a container (payload digests)"""
    import h5py
    if not pathlib.Path(path).exists():
        return {"data": {}, "analysis": {}}
    out = {"data": {}, "analysis": {}}
    with h5py.File(path, "r") as h5:
        for k in h5.get("data", {}):
            d = h5["data"][k]
            out["data"][k] = (dig(d[...]), dig(d.attrs["path"])
                              if "path" in d.attrs else None)
        for k in h5.get("analysis", {}):
            g = h5["analysis"][k]
            at = {}
            for a in g.attrs:
                v = g.attrs[a]
                if a in TIMEKEYS:
                    at[a] = "T"
                elif a == "data hash":
                    at[a] = str(v)
                else:
                    at[a] = dig(np.asarray(v)) if isinstance(
                        v, np.ndarray) and v.shape != () else dig(
                        v.item() if isinstance(v, np.generic) else v)
            out["analysis"][k] = {"attrs": at, "dsets": {
                n: dig(g[n][...]) for n in g}}
    return out


def coq_h5(t):
    def s(x):
        return coq_string(x)
    data = "; ".join(
        f"({s(k)}, ({s(b)}, {'Some ' + s(p) if p is not None else 'None'}))"
        for k, (b, p) in sorted(t["data"].items()))
    ana = "; ".join(
        "(%s, {| gattrs := [%s]; gdsets := [%s] |})" % (
            s(k), "; ".join(f"({s(a)}, {s(v)})"
                            for a, v in sorted(g["attrs"].items())),
            "; ".join(f"({s(a)}, {s(v)})"
                      for a, v in sorted(g["dsets"].items())))
        for k, g in sorted(t["analysis"].items()))
    return "{| hdata := [%s]; hana := [%s] |}" % (data, ana)


def coq_curve(c):
    def s(x):
        return coq_string(x)

    def al(l):
        return "[" + "; ".join(f"({s(a)}, {s(b)})" for a, b in l) + "]"
    return ("{| chash := %s; cid := %s; cblob := %s; cpath := %s; cattrs := "
            "%s; cdsets := %s; cfit := %s |}" % (
                s(c["chash"]), s(c["cid"]), s(c["cblob"]), s(c["cpath"]),
                al(c["cattrs"]), al(c["cdsets"]), s(c["cfit"])))


# --------------------------------------------------------------------------
# fault injection at the write calls of one save
# --------------------------------------------------------------------------
class Boom(Exception):
    pass


class Faults:
    """counts the modelled write calls (dataset / group creation, attribute
    writes, group deletion; not the two top-level require_group calls) and
    raises before call number `fail`"""

    def __init__(self, fail=None):
        self.fail = fail
        self.n = 0
        self.calls = []

    def tick(self, kind, name):
        if kind == "group" and name in ("data", "analysis"):
            return
        if self.fail is not None and self.n == self.fail:
            raise Boom(f"injected before write {self.n}: {kind} {name}")
        self.n += 1
        self.calls.append((kind, name))

    def __enter__(self):
        import h5py
        self.h5py = h5py
        self.o = (h5py.Group.create_dataset, h5py.Group.create_group,
                  h5py.AttributeManager.__setitem__, h5py.Group.__delitem__)
        me = self

        def cd(g, name, *a, **k):
            me.tick("dset", name)
            return me.o[0](g, name, *a, **k)

        def cg(g, name, *a, **k):
            me.tick("group", name)
            return me.o[1](g, name, *a, **k)

        def sa(am, name, val):
            me.tick("attr", name)
            return me.o[2](am, name, val)

        def dl(g, name):
            me.tick("del", name)
            return me.o[3](g, name)
        h5py.Group.create_dataset = cd
        h5py.Group.create_group = cg
        h5py.AttributeManager.__setitem__ = sa
        h5py.Group.__delitem__ = dl
        return self

    def __exit__(self, *a):
        h = self.h5py
        (h.Group.create_dataset, h.Group.create_group,
         h.AttributeManager.__setitem__, h.Group.__delitem__) = self.o


def real_load_ids(path):
    from nanite.rate import io
    with warnings.catch_warnings():
        warnings.simplefilter("ignore")
        try:
            rs = io.load_hdf5(path)
        except BaseException as e:
            return None, f"{type(e).__name__}: {e}"
    ids = []
    for r in rs:
        ids.append(f"{io.hash_file(r['data_set'].path)[:0]}")
    return rs, None


def loaded_ids(path):
    """ids (hash_enum) of the ratings the real loader returns, or None"""
    import h5py
    from nanite.rate import io
    with warnings.catch_warnings():
        warnings.simplefilter("ignore")
        try:
            rs = io.load_hdf5(path)
        except BaseException as e:
            return None, rs_err(e)
    with h5py.File(path, "r") as h5:
        ids = [k for k in h5["analysis"] if "fit" in h5["analysis"][k]]
    if len(ids) != len(rs):
        return None, f"loader returned {len(rs)} ratings for {len(ids)} groups"
    # the same ratings through the meta-only path (RateManager.get_rates,
    # training-set export)
    with warnings.catch_warnings():
        warnings.simplefilter("ignore")
        try:
            meta = io.load_hdf5(path, meta_only=True)
            rates = io.RateManager(path).get_rates("user")
        except BaseException as e:
            return None, "meta-only loader: " + rs_err(e)
    full = [r["rating"] for r in rs]
    if [m["rating"] for m in meta] != full or list(rates) != full:
        return None, (f"meta-only loader returned the ratings "
                      f"{[m['rating'] for m in meta]} / {list(rates)}, the "
                      f"full loader {full}")
    return ids, None


def rs_err(e):
    return f"{type(e).__name__}: {e}"


def do_save(path, idnt, rate, name, comment, fail=None):
    from nanite.rate import io
    with Faults(fail) as f:
        try:
            io.save_hdf5(path, idnt, rate, name, comment)
            exn = None
        except Boom:
            exn = "Boom"
        except BaseException as e:
            exn = type(e).__name__
    return exn, f


class Scenario:
    """a container under a sequence of saves; every step is compared with the
    Coq model and with the property's direct statements"""

    def __init__(self, run, name, exprs, descr):
        self.run, self.name = run, name
        self.dir = common.scratch() / f"c16-{name}"
        shutil.rmtree(self.dir, ignore_errors=True)
        self.dir.mkdir(parents=True)
        self.path = self.dir / "ratings.h5"
        self.exprs, self.descr = exprs, descr
        self.step = 0

    def fail(self, key, what, payload=None, theorem=None):
        self.run.failing(SITE, f"{self.name}|{key}", f"{self.name}: {what}",
                         payload=payload or {"kind": "scenario",
                                             "name": self.name},
                         theorem=theorem)

    def save(self, idnt, rate, name, comment, fail=None, expect=None,
             label=""):
        self.step += 1
        pre = dump(self.path)
        c = modelled_curve(idnt)
        u = user_attrs(rate, name, comment)
        # (the lookup "is this curve rated already" is used before and after
        # every save, as the rating GUI does)
        from nanite.rate import io as _io
        try:
            _io.hdf5_rated(self.path, idnt)
        except BaseException:
            pass
        exn, f = do_save(self.path, idnt, rate, name, comment, fail)
        post = dump(self.path)
        if exn is None:
            try:
                got = _io.hdf5_rated(self.path, idnt)
                if not (bool(got[0]) and float(got[1]) == float(rate)
                        and str(got[2]) == str(comment)):
                    self.fail(f"{label}|hdf5_rated",
                              f"step {self.step} {label}: after saving rate "
                              f"{rate!r} / comment {comment!r}, hdf5_rated "
                              f"answers {got!r}", theorem="C16_roundtrip")
            except BaseException as e:
                self.fail(f"{label}|hdf5_rated",
                          f"step {self.step} {label}: hdf5_rated raised "
                          f"{type(e).__name__}: {e}", theorem="C16_roundtrip")
        ids, err = loaded_ids(self.path)
        tag = f"step {self.step} {label} (fail={fail}) -> {exn}"
        self.run.case({"scenario": self.name, "step": self.step,
                       "label": label, "fail": fail, "outcome": exn},
                      kind=("crash" if fail is not None else "save")
                      + ":" + (label or "save"))
        # ---- direct statements
        if err is not None:
            self.fail(f"{label}|{fail}|unreadable",
                      f"{tag}: the container cannot be loaded any more: "
                      f"{err}", theorem="C16_crash_safe")
        for k, g in pre["analysis"].items():
            if k != c["cid"] and post["analysis"].get(k) != g:
                self.fail(f"{label}|{fail}|other-entry",
                          f"{tag}: entry {k} of another curve was altered",
                          theorem="C16_other_entries_untouched")
        for k, d in pre["data"].items():
            if post["data"].get(k) != d and d[1] is not None:
                self.fail(f"{label}|{fail}|data",
                          f"{tag}: embedded file {k} was altered",
                          theorem="C16_other_entries_untouched")
        if expect is not None and exn != expect:
            self.fail(f"{label}|{fail}|outcome",
                      f"{tag}: expected outcome {expect}",
                      theorem="C16_different_fit_refused"
                      if expect == "ValueError" else "C16_roundtrip")
        if exn == "ValueError" and post != pre:
            self.fail(f"{label}|refused-but-changed",
                      f"{tag}: refused save changed the file",
                      theorem="C16_different_fit_refused")
        # ---- model
        cexn = {None: "None", "ValueError": "(Some ValueError)",
                "KeyError": "(Some KeyError)", "Boom": "None"}.get(
            exn, "(Some OtherError)")
        n = "None" if fail is None else f"(Some {fail})"
        lids = "None" if ids is None else "(Some [" + "; ".join(
            coq_string(i) for i in ids) + "])"
        self.exprs.append(
            f"agrees {coq_h5(pre)} {coq_curve(c)} "
            "[" + "; ".join(f"({coq_string(a)}, {coq_string(b)})"
                            for a, b in u) + "] "
            f"{n} {coq_h5(post)} {cexn} {lids}")
        self.descr.append(f"{self.name}: {tag}")
        return exn, f, pre, post


# --------------------------------------------------------------------------
# round trip of one curve (direct oracle)
# --------------------------------------------------------------------------
def pequal(a, b):
    if set(a.keys()) != set(b.keys()):
        return False
    for k in a:
        x, y = a[k], b[k]
        if not (x.value == y.value and x.vary == y.vary and x.expr == y.expr
                and x.min == y.min and x.max == y.max):
            return False
    return True


def setting_equal(key, a, b):
    import lmfit
    if isinstance(a, lmfit.Parameters):
        return isinstance(b, lmfit.Parameters) and pequal(a, b)
    if isinstance(a, np.ndarray) or isinstance(b, np.ndarray):
        return np.array_equal(np.asarray(a), np.asarray(b), equal_nan=True)
    if key == "range_x":
        return [float(v) for v in a] == [float(v) for v in b]
    if key == "preprocessing":
        return list(a) == list(b)
    if isinstance(a, float) and a != a:
        return b != b
    return a == b


def roundtrip(run, name, idnt, cfg):
    from nanite.rate import io
    from nanite.rate.features import IndentationFeatures
    d = common.scratch() / f"c16-rt-{name}"
    shutil.rmtree(d, ignore_errors=True)
    d.mkdir(parents=True)
    p = d / "r.h5"
    key = f"roundtrip:{name}"
    payload = {"kind": "roundtrip", "name": name}
    run.case({"roundtrip": name, "cfg": {k: str(v) for k, v in cfg.items()}},
             kind="roundtrip")
    try:
        io.save_hdf5(p, idnt, 7.5, "hans", "a comment, with comma")
        with warnings.catch_warnings():
            warnings.simplefilter("ignore")
            rs = io.load_hdf5(p)
            meta = io.load_hdf5(p, meta_only=True)
            rated = io.hdf5_rated(p, idnt)
            rm = io.RateManager(p).ratings
    except BaseException as e:
        run.failing(SITE, key + "|raised", f"{name} ({cfg}): save/load raised "
                    f"{rs_err(e)}", payload=payload, theorem="C16_roundtrip")
        return
    why = []
    if len(rs) != 1 or len(meta) != 1 or len(rm) != 1:
        why.append(f"{len(rs)}/{len(meta)}/{len(rm)} ratings loaded")
    else:
        r = rs[0]
        if (r["name"], float(r["rating"]), r["comment"]) != (
                "hans", 7.5, "a comment, with comma"):
            why.append("user fields differ")
        if not (rated[0] and float(rated[1]) == 7.5
                and rated[2] == "a comment, with comma"):
            why.append(f"hdf5_rated returns {rated}")
        if int(r["enum"]) != int(idnt.enum):
            why.append("enum differs")
        ds = r["data_set"]
        for col in DSETS:
            a, b = np.asarray(idnt[col]), np.asarray(ds[col])
            if a.shape != b.shape or a.tobytes() != b.astype(
                    a.dtype).tobytes():
                why.append(f"column {col!r} differs")
        fpo, fpl = dict(idnt.fit_properties), r["fit properties"]
        if set(fpo) != set(fpl):
            why.append(f"setting keys differ: {sorted(set(fpo) ^ set(fpl))}")
        else:
            for k in fpo:
                if not setting_equal(k, fpo[k], fpl[k]):
                    why.append(f"setting {k!r}: {fpo[k]!r} loaded as "
                               f"{fpl[k]!r}")
        try:
            with warnings.catch_warnings():
                warnings.simplefilter("ignore")
                fo = IndentationFeatures.compute_features(idnt)
                fl = IndentationFeatures.compute_features(ds)
            if not np.array_equal(np.asarray(fo, float),
                                  np.asarray(fl, float), equal_nan=True):
                why.append("rating features differ after loading")
        except BaseException as e:
            why.append(f"features raised {rs_err(e)}")
    for w in why:
        run.failing(SITE, key + "|" + w.split(":")[0][:40],
                    f"{name} ({cfg}): {w}", payload=payload,
                    theorem="C16_roundtrip")
    shutil.rmtree(d, ignore_errors=True)


def tab_curve():
    """a curve with an innate tip position (afmformats tab export), fitted
    without any preprocessing step"""
    from nanite import IndentationGroup
    d = common.scratch() / "c16-tab"
    shutil.rmtree(d, ignore_errors=True)
    d.mkdir(parents=True)
    src = load_curves("fmt-jpk-fd_spot3-0192.jpk-force")[0]
    src.apply_preprocessing(list(PIPE))
    p = d / "exported.tab"
    src.export_data(p, metadata=True, fmt="tab")
    idnt = IndentationGroup(p)[0]
    with warnings.catch_warnings():
        warnings.simplefilter("ignore")
        idnt.fit_model(model_key="hertz_para", preprocessing=[])
    return idnt


# --------------------------------------------------------------------------
def check(run):
    run.sources = common.source_digests(["src/nanite/rate/io.py"])
    gen_all.generate_all()
    common.prove(run, "C16")
    run.trusted = [
        "Coq 8.16.1 kernel + vm_compute (closed under the global context)",
        "coq/Model/Container.v tied by comparing, after every real save "
        "(complete, refused, or interrupted before write call k for EVERY k), "
        "the h5py dump of the file, the outcome and the set of loadable "
        "ratings with save / save_upto k / load evaluated in Coq",
        "fault injection by wrapping h5py create_dataset / create_group / "
        "attribute writes / group deletion from the harness process",
    ]
    run.assumptions = [
        "crash points are write CALLS (HDF5's own atomicity below a call is "
        "outside the model); the two top-level groups exist (a container "
        "with at least one complete save)",
        "payloads are compared by digest; time stamps are canonicalised",
        "np.allclose on the fit columns is modelled as equality of digests "
        "(scenarios use identical or clearly different fits)",
        "afmformats rebuilds curves from the embedded raw file (oracle)",
    ]
    exprs, descr = [], []
    single = "fmt-jpk-fd_spot3-0192.jpk-force"
    mapf = "fmt-jpk-fd_map2x2_extracted.jpk-force-map"
    with warnings.catch_warnings():
        warnings.simplefilter("ignore")
        a = fit_curve(load_curves(single)[0], **copy.deepcopy(FITS[0]))
        a2 = fit_curve(load_curves(single)[0], **copy.deepcopy(FITS[1]))
        m = load_curves(mapf)
        m0 = fit_curve(m[0], **copy.deepcopy(FITS[0]))
        m1 = fit_curve(m[1], **copy.deepcopy(FITS[2]))
        m2 = fit_curve(m[2], **copy.deepcopy(FITS[0]))
        # --- histories of complete saves
        sc = Scenario(run, "history", exprs, descr)
        sc.save(a, 5, "alice", "ok", expect=None, label="new")
        sc.save(m0, 3, "alice", "", expect=None, label="new-other-file")
        sc.save(a, 6.5, "bob", "changed my mind", expect=None,
                label="same-again")
        _, _, pre, post = sc.save(a, 6.5, "carol", "changed my mind",
                                  label="same-again-name-only")
        g0, g1 = pre["analysis"], post["analysis"]
        cid = modelled_curve(a)["cid"]
        changed = {k for k in g1[cid]["attrs"]
                   if g1[cid]["attrs"][k] != g0[cid]["attrs"].get(k)}
        if g1[cid]["dsets"] != g0[cid]["dsets"] or not changed <= {
                "user name", "user rate", "user comment"} or \
                "user name" not in changed:
            sc.fail("resave", f"re-save changed {sorted(changed)} / datasets",
                    theorem="C16_resave_user_only")
        # the comment cleared again (empty text is a value like any other)
        sc.save(a, 2, "dora", "", expect=None, label="same-again-empty-comment")
        sc.save(a, 2.5, "dora", "back", expect=None,
                label="same-again-comment-back")
        sc.save(a2, 1, "mallory", "other fit", expect="ValueError",
                label="different-fit")
        # different fits of the stored curve whose fit columns share no
        # finite sample with the stored one: other segment, failed fit
        a3 = fit_curve(load_curves(single)[0], model_key="hertz_para",
                       segment=1)
        sc.save(a3, 2, "mallory", "retract fit", expect="ValueError",
                label="different-fit-other-segment")
        a4 = fit_curve(load_curves(single)[0], model_key="hertz_para",
                       range_type="relative cp", range_x=[1e-3, 2e-3])
        sc.save(a4, 0, "mallory", "failed fit", expect="ValueError",
                label="different-fit-all-nan")
        # different fits of the stored curve with an EQUAL fit hash: the
        # hash is computed before fitting from data, preprocessing and the
        # hashed part of the settings -- it does not cover brute_step or a
        # fit column replaced by the caller
        a5 = fit_curve(load_curves(single)[0], **copy.deepcopy(FITS[0]))
        a5["fit"] = np.array(a5["fit"], copy=True) * 1.01
        if a5.fit_properties.get("hash") == a.fit_properties.get("hash"):
            sc.save(a5, 1, "mallory", "edited column", expect="ValueError",
                    label="different-fit-equal-hash")
        m1b = []
        for esteps, cpsteps in [(7, 9), (10, 13)]:
            from nanite import model as nmodel
            ps = nmodel.model_hertz_paraboloidal.get_parameter_defaults()
            ps["E"].set(value=3e3, min=100, max=20e3,
                        brute_step=(20e3 - 100) / esteps)
            ps["contact_point"].set(value=0, min=-1e-6, max=1e-6,
                                    brute_step=2e-6 / cpsteps)
            ps["baseline"].set(value=0, vary=False)
            m1b.append(fit_curve(load_curves(mapf)[3], model_key="hertz_para",
                                 params_initial=ps, method="brute",
                                 weight_cp=False))
        if m1b[0].fit_properties.get("success") and \
                m1b[1].fit_properties.get("success") and \
                not np.allclose(m1b[0]["fit"], m1b[1]["fit"], rtol=1e-6,
                                atol=0, equal_nan=True):
            sc.save(m1b[0], 7, "alice", "coarse grid", expect=None,
                    label="brute-grid-first")
            sc.save(m1b[1], 1, "mallory", "fine grid", expect="ValueError",
                    label="different-fit-brute-step")
        sc.save(m1, 8, "bob", "x", expect=None, label="new-other-enum")
        sc.save(m1, 8, "bob", "x", expect=None, label="identical-again")
        # --- a failure before every write call of a save
        nw = None
        for label, mk in [
            ("crash-new", lambda: m2),
            ("crash-resave", lambda: a),
            # a curve of a measurement file the container does not hold yet
            # (its raw file is embedded by this very save)
            ("crash-new-file", lambda: m2),
        ]:
            idnt = mk()
            k = 0
            while True:
                sc2 = Scenario(run, f"{label}-{k}", exprs, descr)
                sc2.save(a, 5, "alice", "ok", label="base")
                if label != "crash-new-file":
                    sc2.save(m0, 3, "alice", "", label="base2")
                exn, f, _, _ = sc2.save(idnt, 4, "dave", "retry me", fail=k,
                                        label=label)
                if exn != "Boom":
                    nw = f.n
                    break
                # a retry must succeed and show the curve
                e2, _, _, post = sc2.save(idnt, 4, "dave", "retry me",
                                          expect=None, label="retry")
                cid = modelled_curve(idnt)["cid"]
                if cid not in post["analysis"] or \
                        "fit" not in post["analysis"][cid]["dsets"]:
                    sc2.fail(f"retry|{k}", f"after a failure before write {k}"
                             " the retried save did not store the curve",
                             theorem="C16_crash_safe")
                shutil.rmtree(sc2.dir, ignore_errors=True)
                k += 1
                if run.tier == "quick" and label.startswith("crash-new") \
                        and 8 < k < 26:
                    k = 26          # attribute writes are all alike
            run.extra[f"write_calls:{label}"] = nw
        # --- a failure part-way, then the SAME curve saved with ANOTHER fit:
        # what is stored is that other fit alone, exactly as in a container
        # that never saw the interrupted attempt
        m2b = fit_curve(load_curves(mapf)[2], **copy.deepcopy(FITS[1]))
        cid2 = modelled_curve(m2b)["cid"]
        scr = Scenario(run, "other-fit-reference", exprs, descr)
        scr.save(a, 5, "alice", "ok", label="base")
        _, _, _, ref_post = scr.save(m2b, 4, "dave", "other fit",
                                     label="reference")
        ref_group = ref_post["analysis"].get(cid2)
        shutil.rmtree(scr.dir, ignore_errors=True)
        ks = range(2, (nw or 30)) if run.tier != "quick" else \
            [k for k in range(2, (nw or 30)) if k < 9 or k > 25]
        for k in ks:
            sc3 = Scenario(run, f"crash-then-other-fit-{k}", exprs, descr)
            sc3.save(a, 5, "alice", "ok", label="base")
            exn, f, _, _ = sc3.save(m2, 4, "dave", "first fit", fail=k,
                                    label="crash-new-file")
            if exn != "Boom":
                shutil.rmtree(sc3.dir, ignore_errors=True)
                break
            e2, _, _, post = sc3.save(m2b, 4, "dave", "other fit",
                                      label="other-fit-after-crash")
            got = post["analysis"].get(cid2)
            if e2 is None and got != ref_group:
                diffs = sorted(
                    set(n for n in (got or {}).get("dsets", {})
                        if (got or {})["dsets"].get(n)
                        != (ref_group or {}).get("dsets", {}).get(n))
                    | set(n for n in (got or {}).get("attrs", {})
                          if (got or {})["attrs"].get(n)
                          != (ref_group or {}).get("attrs", {}).get(n)))
                sc3.fail(f"other-fit|{k}", f"after a failure before write {k} "
                         "of one fit, saving another fit of the same curve "
                         "stores an entry that differs from the one a clean "
                         f"container gets for that fit (in {diffs})",
                         theorem="C16_crash_safe")
            shutil.rmtree(sc3.dir, ignore_errors=True)
        # --- two measurement files that share their file name (different
        # folders, different content): both ratings load back
        try:
            from nanite import IndentationGroup
            from nanite.rate import io as _io
            dd = common.scratch() / "c16-same-name"
            shutil.rmtree(dd, ignore_errors=True)
            twins = []
            for j in (0, 1):
                (dd / f"sample_{j}").mkdir(parents=True)
                dst = dd / f"sample_{j}" / "curve-001.jpk-force"
                # (two different recordings)
                shutil.copy(DATA / [single, "fmt-jpk-fd_single_tilted-"
                                    "baseline-drift-mitotic_2021-01-29"
                                    ".jpk-force"][j], dst)
                twins.append(fit_curve(IndentationGroup(dst)[0],
                                       **copy.deepcopy(FITS[j])))
            h5p = dd / "ratings.h5"
            for j, tw in enumerate(twins):
                _io.save_hdf5(h5p, tw, 4 + j, "erin", f"twin {j}")
            run.case({"scenario": "same-file-name", "curves": 2},
                     kind="save:same-file-name")
            try:
                rs = _io.load_hdf5(h5p)
                got = sorted((r["comment"], float(r["rating"])) for r in rs)
                ok = got == [("twin 0", 4.0), ("twin 1", 5.0)] and all(
                    np.allclose(np.asarray(r["data_set"]["force"]),
                                np.asarray(twins[int(r["comment"][-1])][
                                    "force"]), equal_nan=True) for r in rs)
                why = None if ok else f"loaded {got}"
            except BaseException as e:
                why = f"load raised {type(e).__name__}: {e}"
            if why:
                run.failing(SITE, "same-file-name", "two measurement files "
                            "named alike in different folders stored in one "
                            "container: " + why, payload={"kind": "rerun"},
                            theorem="C16_roundtrip")
            shutil.rmtree(dd, ignore_errors=True)
        except BaseException as e:
            run.obligation("same-file-name-scenario-completed", False,
                           f"{type(e).__name__}: {e}")
        # --- a folder of containers that hold the same curve under
        # different fits: loading the folder equals loading each container
        try:
            from nanite.rate import io as _io
            dd = common.scratch() / "c16-folder"
            shutil.rmtree(dd, ignore_errors=True)
            dd.mkdir(parents=True)
            for j, who in enumerate(["alice", "bob", "carol"]):
                cvj = fit_curve(load_curves(single)[0],
                                **copy.deepcopy(FITS[j % len(FITS)]))
                _io.save_hdf5(dd / f"rate_{who}.h5", cvj, 3 + j, who,
                              f"fit {j}")
            run.case({"scenario": "folder-of-containers", "containers": 3},
                     kind="load:folder")

            def summary(r):
                ds = r["data_set"]
                fpv = ds.fit_properties
                pf = fpv.get("params_fitted")
                return (str(r["comment"]), float(r["rating"]),
                        list(ds.preprocessing),
                        json.dumps(ds.preprocessing_options, sort_keys=True,
                                   default=str),
                        fpv.get("model_key"),
                        None if pf is None else
                        [(k_, repr(float(v_.value))) for k_, v_ in pf.items()],
                        repr(fpv.get("range_x")), fpv.get("segment"),
                        dig(np.asarray(ds["fit"])) if "fit" in ds else None,
                        dig(np.asarray(ds["force"])),
                        dig(np.asarray(ds["tip position"]))
                        if "tip position" in ds else None)
            try:
                alone = []
                for fpath in sorted(dd.glob("*.h5")):
                    alone += [summary(r) for r in _io.load_hdf5(fpath)]
                rs = _io.load(dd)
                together = [summary(r) for r in rs]
                why = None
                if sorted(map(repr, alone)) != sorted(map(repr, together)):
                    bad_ = [t[0] for t in together
                            if repr(t) not in set(map(repr, alone))]
                    why = ("ratings " + ", ".join(map(repr, bad_))
                           + " load with another analysis from the folder "
                           "than from their own container")
                elif len(set(id(r["data_set"]) for r in rs)) != len(rs):
                    why = "two ratings share one curve object"
            except BaseException as e:
                why = f"load raised {type(e).__name__}: {e}"
            if why:
                run.failing(SITE, "folder-of-containers", "three containers "
                            "with the same curve under different fits in one "
                            "folder: " + why, payload={"kind": "rerun"},
                            theorem="C16_roundtrip")
            shutil.rmtree(dd, ignore_errors=True)
        except BaseException as e:
            run.obligation("folder-scenario-completed", False,
                           f"{type(e).__name__}: {e}")
        # --- round trips
        cases = [("single-%d" % i, load_curves(single)[0], kw)
                 for i, kw in enumerate(FITS)]
        if run.tier != "quick":
            for fn in ["fmt-jpk-fd_map1d_2016-11-07.jpk-force-map",
                       "fmt-jpk-fd_single_tilted-baseline-drift-"
                       "mitotic_2021-01-29.jpk-force"]:
                for j, cv in enumerate(load_curves(fn)[:3]):
                    cases.append((f"{fn[:24]}-{j}", cv, FITS[j % len(FITS)]))
        for nm, cv, kw in cases:
            try:
                idn = fit_curve(cv, **copy.deepcopy(kw))
            except BaseException as e:
                run.count("roundtrip-fit-raised:" + type(e).__name__)
                continue
            roundtrip(run, nm, idn, kw)
        try:
            roundtrip(run, "tab-no-preprocessing", tab_curve(),
                      {"preprocessing": []})
        except BaseException as e:
            run.count("tab-export-unavailable:" + type(e).__name__)
    fits.eval_bool_cases(run, "c16_h5", exprs, descr, head=HEAD, chunk=12)
    run.extra["model_compared_saves"] = len(exprs)
    run.exhaustive = False
    run.rule = ("sequences of saves (new curve, other file, other "
                "enumeration, same curve again, same curve with another fit) "
                "and a failure injected before EVERY write call of a save of "
                "a new curve and of a re-save, each followed by a retry; "
                "after every step the file dump, outcome and loadable ratings "
                "are compared with the Coq model and the property's direct "
                "statements; round trips of fitted curves over settings; "
                "distinct by (scenario, step, failure point)")


def replay(rec):
    return common.replay_by_rerun(sys.modules[__name__], rec)
