"""C15 -- training sets load clean, aligned, and survive export."""
import math
import pathlib
import re
import shutil
from fractions import Fraction

import sys

import numpy as np

from .. import common, gen_all, curves, fits, m1

SITE = "nanite.rate.rater.IndentationRater.load_training_set"
SITE_W = "nanite.rate.rater.IndentationRater.compute_sample_weight"
SITE_X = "nanite.rate.io.RateManager.export_training_set"


def xnum(v):
    v = float(v)
    if math.isnan(v):
        return "XNan"
    if math.isinf(v):
        return "XPos" if v > 0 else "XNeg"
    fr = Fraction(v)
    return f"(XFin ({fr.numerator} # {fr.denominator}))"


def q(v):
    fr = Fraction(float(v))
    return f"({fr.numerator} # {fr.denominator})"


def rnd_matrix(rng, names):
    n = rng.choice([1, 2, 3, 5, 8, 13, 25, 40])
    y = np.array([float(rng.choice([0, 0, 1, 2, 3, 5, 7, 9, 10]))
                  for _ in range(n)])
    X = np.array([[rng.choice([0.0, 0.5, 1.25, -2.0, 3.0, 1e-3, 12.0, 0.75])
                   for _ in names] for _ in range(n)], dtype=float)
    pat = rng.choice(["clean", "nan-rows", "nan-zero-rated", "inf", "mixed",
                      "all-nan-col", "all-inf-col", "inf-and-nan", "mixed"])
    if pat in ("nan-rows", "mixed", "inf-and-nan"):
        for _ in range(rng.randint(1, max(1, n // 2))):
            X[rng.randrange(n), rng.randrange(len(names))] = np.nan
    if pat in ("nan-zero-rated", "mixed"):
        zs = np.nonzero(y == 0)[0]
        for i in zs[:max(1, len(zs) // 2)]:
            X[i, rng.randrange(len(names))] = np.nan
    if pat in ("inf", "mixed", "inf-and-nan"):
        for _ in range(rng.randint(1, 3)):
            X[rng.randrange(n), rng.randrange(len(names))] = rng.choice(
                [np.inf, -np.inf])
    if pat == "all-nan-col":
        X[:, rng.randrange(len(names))] = np.nan
    if pat == "all-inf-col":
        X[:, rng.randrange(len(names))] = rng.choice([np.inf, -np.inf])
    return X, y, pat


CASE_HEAD = """From Coq Require Import List QArith Qabs Bool String.
From NV Require Import Base.Exn Model.FitCore Model.Training Gen.Tables.
Import ListNotations.
Local Open Scope Q_scope.
Definition close (a b : Q) : bool :=
  Qle_bool (Qabs (a - b)) ((1 # 1000000000000) * Qabs b) || Qeq_bool a b.
Definition x_same (a b : xnum) : bool :=
  match a, b with
  | XNan, XNan | XPos, XPos | XNeg, XNeg => true
  | XFin p, XFin r => close p r
  | _, _ => false end.
Fixpoint l_same {A} (f : A -> A -> bool) (a b : list A) : bool :=
  match a, b with [], [] => true | x :: s, y :: t => f x y && l_same f s t | _, _ => false end.
Definition agree (c : bool * bool * bool * list (list xnum) * list Q *
                      res (list (list xnum) * list Q)) : bool :=
  let '(ri, im, rn, cols, resp, expected) := c in
  match load ri im rn cols resp, expected with
  | Ok (c1, r1), Ok (c2, r2) => l_same (l_same x_same) c1 c2 && l_same Qeq_bool r1 r2
  | Err e, Err f => exn_eqb e f
  | _, _ => false end.
"""


def coq_cols(X):
    return "[" + "; ".join("[" + "; ".join(xnum(v) for v in X[:, j]) + "]"
                           for j in range(X.shape[1])) + "]"


def write_ts(path, names, X, y):
    path.mkdir(parents=True, exist_ok=True)
    for j, fn in enumerate(names):
        np.savetxt(path / f"train_{fn}.txt", X[:, j], fmt="%.6e")
    np.savetxt(path / "train_response.txt", y, fmt="%.2e")


def has_all_inf_column(X, y):
    """independent restatement: after imputation and NaN-row removal some
    column has entries but no finite one"""
    X = X.copy()
    zero = y == 0
    for j in range(X.shape[1]):
        nan = np.isnan(X[:, j])
        if np.any(zero & nan) and np.any(zero & ~nan):
            X[zero & nan, j] = np.mean(X[zero & ~nan, j])
    keep = ~np.isnan(X).any(axis=1)
    X = X[keep]
    return any(X.shape[0] and np.isinf(X[:, j]).any()
               and not np.isfinite(X[:, j]).any() for j in range(X.shape[1]))


def spec_load(X, y, replace_inf=True, impute=True, remove_nan=True):
    """independent restatement of the documented cleaning; each phase only
    when its flag is given, nothing else is altered"""
    X = X.copy()
    zero = y == 0
    if impute:
        for j in range(X.shape[1]):
            nan = np.isnan(X[:, j])
            if np.any(zero & nan) and np.any(zero & ~nan):
                X[zero & nan, j] = np.mean(X[zero & ~nan, j])
    if remove_nan:
        keep = ~np.isnan(X).any(axis=1)
        X, y = X[keep], y[keep]
    if replace_inf:
        for j in range(X.shape[1]):
            inf = np.isinf(X[:, j])
            if inf.any():
                fin = np.isfinite(X[:, j])
                if not fin.any():
                    raise ValueError("column without finite entries")
                ext = np.max(np.abs(X[fin, j]))
                X[np.isposinf(X[:, j]), j] = 2 * ext
                X[np.isneginf(X[:, j]), j] = -2 * ext
    return X, y


def check_loader(run):
    from nanite.rate import IndentationRater
    allnames = IndentationRater.get_feature_names(which_type="all")
    connames = IndentationRater.get_feature_names(which_type="continuous")
    n = 120 if run.tier == "quick" else 2500
    base = common.scratch() / "ts"
    exprs, descr = [], []
    for i in range(n):
        k = run.rng.choice([1, 2, 3, 4, 12])
        sub = sorted(run.rng.sample(connames, min(k, len(connames))))
        X, y, pat = rnd_matrix(run.rng, sub)
        flags = (run.rng.random() < 0.85, run.rng.random() < 0.85,
                 run.rng.random() < 0.85)
        if i % 3 == 0:
            flags = (True, True, True)
        d = base / f"ts_{i}"
        write_ts(d, sub, X, y)
        # what the loader reads (text round trip) is the model's input
        Xr = np.concatenate([np.loadtxt(d / f"train_{fn}.txt", ndmin=2)
                             for fn in sub], axis=1)
        yr = np.loadtxt(d / "train_response.txt", dtype=float, ndmin=1)
        names_arg = list(sub)
        run.rng.shuffle(names_arg)
        cfg = {"names": names_arg, "flags": flags, "pattern": pat,
               "shape": list(X.shape), "X": X.tolist(), "y": y.tolist()}
        key = "load:" + common.sha(cfg)[:16]
        try:
            Xo, yo, fn_out = IndentationRater.load_training_set(
                path=d, names=names_arg, replace_inf=flags[0],
                impute_zero_rated_nan=flags[1], remove_nan=flags[2],
                ret_names=True)
            out = ("ok", Xo, np.atleast_1d(yo))
        except BaseException as e:
            out = (type(e).__name__, None, None)
        shutil.rmtree(d, ignore_errors=True)
        run.case({"pattern": pat, "flags": flags, "shape": list(X.shape),
                  "outcome": out[0]},
                 nontrivial=pat != "clean", kind=f"{pat}:{out[0]}")
        if out[0] == "ok":
            exp = (f"(Ok ({coq_cols(Xo.reshape(-1, len(sub)))}, ["
                   + "; ".join(q(v) for v in out[2]) + "]))")
            if list(fn_out) != sorted(sub):
                run.failing(SITE, key, f"columns {fn_out} do not follow the "
                            f"sorted requested names {sorted(sub)}",
                            payload={"kind": "load", "cfg": cfg},
                            theorem="C15 (columns sorted)")
        else:
            exp = f"(Err {m1.exn_coq(out[0])})"
        fl = ", ".join("true" if f else "false" for f in flags)
        exprs.append(f"agree ({fl}, {coq_cols(Xr)}, ["
                     + "; ".join(q(v) for v in yr) + f"], {exp})")
        descr.append(str({k2: cfg[k2] for k2 in ("flags", "pattern", "shape")})
                     + " -> " + out[0])
        # direct oracle for the other flag combinations: the phases whose
        # flags are given, nothing else altered
        if not all(flags) and out[0] == "ok":
            try:
                Xs, ys = spec_load(Xr, yr, *flags)
                Xo2 = Xo.reshape(-1, len(sub))
                if Xs.shape != Xo2.shape or not np.allclose(
                        Xs, Xo2, rtol=1e-12, atol=0, equal_nan=True) or \
                        not np.array_equal(ys, out[2]):
                    j_ = None
                    if Xs.shape == Xo2.shape:
                        bad_ = ~((Xs == Xo2) | (np.isnan(Xs) & np.isnan(Xo2))
                                 | np.isclose(Xs, Xo2, rtol=1e-12, atol=0))
                        if bad_.any():
                            r_, c_ = np.argwhere(bad_)[0]
                            j_ = (f"row {r_}, {sub[c_]}: {Xo2[r_, c_]!r} "
                                  f"loaded, {Xs[r_, c_]!r} documented")
                    run.failing(SITE, key, "loaded matrix/responses differ "
                                f"from the documented cleaning with flags "
                                f"(replace_inf, impute, remove_nan) = {flags}"
                                f" ({pat}, shape {X.shape}; {j_})",
                                payload={"kind": "load", "cfg": cfg},
                                theorem="C15_aligned_and_frame")
            except ValueError:
                pass
        # direct oracle
        if all(flags):
            has_allinf = False
            if out[0] == "ok":
                if not np.all(np.isfinite(Xo)):
                    run.failing(SITE, key, "loaded matrix contains NaN/inf "
                                f"({pat}, shape {X.shape})",
                                payload={"kind": "load", "cfg": cfg},
                                theorem="C15_clean")
                try:
                    Xs, ys = spec_load(Xr, yr)
                    if Xs.shape != Xo.reshape(-1, len(sub)).shape or \
                            not np.allclose(Xs, Xo.reshape(-1, len(sub)),
                                            rtol=1e-12, atol=0) or \
                            not np.array_equal(ys, out[2]):
                        run.failing(SITE, key, "loaded matrix/responses "
                                    "differ from the documented cleaning "
                                    f"({pat}, shape {X.shape})",
                                    payload={"kind": "load", "cfg": cfg},
                                    theorem="C15_aligned_and_frame")
                except ValueError:
                    pass
                if Xo.shape[0] != out[2].shape[0]:
                    run.failing(SITE, key, "rows and responses differ in "
                                "number", payload={"kind": "load", "cfg": cfg},
                                theorem="C15_aligned_and_frame")
            else:
                # the only documented way to fail: a column whose kept
                # entries are all infinite (recorded finding)
                kk = "all-inf-column" if has_all_inf_column(Xr, yr) else key
                run.failing(SITE, kk, f"load_training_set raised {out[0]} "
                            f"for pattern {pat} (shape {X.shape})",
                            payload={"kind": "load", "cfg": cfg},
                            theorem="C15_all_inf_column_rejected")
    text_jobs = []
    fits.eval_bool_cases.__globals__["CASE_HEAD_SAVED"] = fits.CASE_HEAD
    saved = fits.CASE_HEAD
    fits.CASE_HEAD = CASE_HEAD
    try:
        fits.eval_bool_cases(run, "c15_load", exprs, descr)
    finally:
        fits.CASE_HEAD = saved
    # unknown names
    try:
        IndentationRater.load_training_set(names=["feat_con_bogus"])
        run.failing(SITE, "unknown-name", "unknown feature name accepted",
                    payload={"kind": "unknown-name"})
    except ValueError:
        pass
    run.case({"unknown-name": True}, kind="unknown-name")


def repeated_load_cases(run):
    """one training-set directory loaded several times in one process with
    changing flags: every load must return what the same call returns for a
    fresh copy of the directory that is loaded only once (a load never changes
    what a later load sees)"""
    from nanite.rate import IndentationRater
    connames = IndentationRater.get_feature_names(which_type="continuous")
    base = common.scratch() / "ts_repeat"
    shutil.rmtree(base, ignore_errors=True)
    for t in range(2 if run.tier == "quick" else 12):
        sub = sorted(run.rng.sample(connames, 3))
        # a pattern with zero-rated NaN rows, other NaN rows and infinities
        X, y, pat = None, None, None
        for _ in range(200):
            X, y, pat = rnd_matrix(run.rng, sub)
            if np.isnan(X).any() and np.isinf(X).any() and (y == 0).any() \
                    and X.shape[0] >= 8 and not has_all_inf_column(X, y):
                break
        d = base / f"ts_{t}"
        write_ts(d, sub, X, y)
        seq = [(True, True, True), (True, False, True), (False, True, False),
               (True, True, False), (False, False, False), (True, True, True)]
        for j, flags in enumerate(seq):
            ref_dir = base / f"ts_{t}_ref{j}"
            shutil.copytree(d, ref_dir)
            run.case({"repeated-load": t, "step": j, "flags": flags},
                     kind="repeated-load")
            key = f"repeated-load:{t}:{j}"

            def load(path):
                try:
                    Xo, yo = IndentationRater.load_training_set(
                        path=path, names=list(sub), replace_inf=flags[0],
                        impute_zero_rated_nan=flags[1], remove_nan=flags[2])
                    return ("ok", np.array(Xo, copy=True),
                            np.array(np.atleast_1d(yo), copy=True))
                except BaseException as e:
                    return (type(e).__name__, None, None)
            got, want = load(d), load(ref_dir)
            shutil.rmtree(ref_dir, ignore_errors=True)
            same = got[0] == want[0] and (got[0] != "ok" or (
                got[1].shape == want[1].shape
                and np.array_equal(got[1], want[1], equal_nan=True)
                and np.array_equal(got[2], want[2], equal_nan=True)))
            if not same:
                run.failing(SITE, key, f"load {j + 1} of one directory (flags "
                            f"replace_inf, impute, remove_nan = {flags}, after"
                            f" loads with {seq[:j]}) differs from the same "
                            "call on a fresh copy of the directory: "
                            f"{got[0]} {None if got[1] is None else got[1].shape}"
                            f" vs {want[0]} "
                            f"{None if want[1] is None else want[1].shape}",
                            payload={"kind": "rerun"},
                            theorem="C15_aligned_and_frame")
        shutil.rmtree(d, ignore_errors=True)


def check_names(run):
    """get_feature_names against the model's select_names"""
    from nanite.rate import IndentationRater
    allnames = IndentationRater.get_feature_names(which_type="all")
    exprs, descr = [], []
    n = 60 if run.tier == "quick" else 600
    for i in range(n):
        wt = run.rng.choice(["all", "binary", "continuous",
                             ["continuous"], ["binary", "continuous"]])
        k = run.rng.choice([0, 1, 2, 5])
        names = run.rng.sample(allnames + ["feat_bogus"], k) if k else None
        try:
            out = ("ok", IndentationRater.get_feature_names(which_type=wt,
                                                            names=names))
        except BaseException as e:
            out = (type(e).__name__, None)
        typed = {"all": "feature_names_all", "binary": "feature_names_bin",
                 "continuous": "feature_names_con"}
        tl = wt if isinstance(wt, list) else [wt]
        texpr = "(" + " ++ ".join(typed[t] for t in tl) + ")%list"
        nm = "None" if names is None else "(Some [" + "; ".join(
            common.coq_string(s) for s in names) + "])"
        if out[0] == "ok":
            exp = "(Ok [" + "; ".join(common.coq_string(s)
                                      for s in out[1]) + "])"
        else:
            exp = f"(Err {m1.exn_coq(out[0])})"
        exprs.append(
            f"match select_names feature_names_all {texpr} {nm}, {exp} with "
            "| Ok a, Ok b => l_same String.eqb a b | Err e, Err f => exn_eqb "
            "e f | _, _ => false end")
        descr.append(f"{wt} {names} -> {out}")
        run.case({"which_type": wt, "names": names, "outcome": out[0]},
                 kind="names-" + out[0])
    saved = fits.CASE_HEAD
    fits.CASE_HEAD = CASE_HEAD
    try:
        fits.eval_bool_cases(run, "c15_names", exprs, descr)
    finally:
        fits.CASE_HEAD = saved


def check_weights(run):
    from nanite.rate import IndentationRater
    exprs, descr = [], []
    n = 60 if run.tier == "quick" else 600
    for i in range(n):
        m = run.rng.choice([1, 2, 3, 7, 20, 50])
        classes = run.rng.sample(range(11), run.rng.randint(1, 6))
        y = np.array([float(run.rng.choice(classes)) for _ in range(m)])
        # the ratings as a user has them: floats (as loaded from a training
        # set), integers (as typed in), 32-bit values
        store = ["float64", "int64", "float32", "int32", "uint8"][i % 5]
        ya = y.astype(store)
        w = IndentationRater.compute_sample_weight(None, ya)
        run.case({"y": y.tolist(), "store": store},
                 nontrivial=len(set(y)) > 1, kind="weights")
        key = "weights:" + common.sha([y.tolist(), store])[:16]
        why = None
        w = np.asarray(w)
        if w.shape != y.shape or not np.all(np.isfinite(w)):
            why = f"weights {w.tolist()} for ratings stored as {store}"
        elif np.any(w < 0):
            why = "negative weight"
        elif abs(w.sum() - 1) > 1e-12:
            why = f"weights sum to {w.sum()}"
        else:
            tot = [w[y == c].sum() for c in set(y)]
            if max(tot) - min(tot) > 1e-12:
                why = f"class totals differ: {tot}"
        if why:
            run.failing(SITE_W, key, f"y={y.tolist()} ({store}): {why}",
                        payload={"kind": "weights", "y": y.tolist(),
                                 "store": store},
                        theorem="C15_weights")
        exprs.append("l_same close (sample_weight ["
                     + "; ".join(f"({int(v)})%Z" for v in y) + "]) ["
                     + "; ".join(q(float(v)) if np.isfinite(v) else "(0#1)"
                                 for v in np.ravel(w)) + "]")
        descr.append(f"{y.tolist()} stored as {store}")
    saved = fits.CASE_HEAD
    fits.CASE_HEAD = CASE_HEAD
    try:
        fits.eval_bool_cases(run, "c15_weights", exprs, descr)
    finally:
        fits.CASE_HEAD = saved


def check_export(run):
    """export a rating container as a training set and load it back"""
    from nanite.rate import io as rio, IndentationRater
    from nanite import IndentationGroup
    d = common.scratch() / "export"
    shutil.rmtree(d, ignore_errors=True)
    d.mkdir(parents=True, exist_ok=True)
    jpk = common.REPO / "tests" / "data" / "fmt-jpk-fd_spot3-0192.jpk-force"
    h5 = d / "rate.h5"
    n = 3 if run.tier == "quick" else 8
    feats, users, kept = {}, {}, []
    # distinct file hash per curve; the files are NAMED against the order of
    # their hashes (the container lists curves by hash, not by name)
    tmpf = []
    for i in range(n):
        t_ = d / f"tmp{i}.jpk-force"
        shutil.copy(jpk, t_)
        with open(t_, "ab") as f:
            f.write(b"\0" * (i + 1))
        tmpf.append((rio.hash_file(t_), i, t_))
    name_of = {i: rank for rank, (_, i, _) in enumerate(
        sorted(tmpf, reverse=True))}
    for i in range(n):
        src = d / f"curve{name_of[i]}.jpk-force"
        tmpf[i][2].rename(src)
        idnt = IndentationGroup(src)[0]
        idnt.apply_preprocessing(["compute_tip_position",
                                  "correct_force_offset",
                                  "correct_tip_offset"])
        if i == 1:
            # a curve that is rated (0) although its fit could not be
            # performed: it keeps its row (NaN features) next to its rating
            idnt.fit_model(model_key="hertz_para", range_type="absolute",
                           range_x=[5e-6, 5.00001e-6])
        else:
            idnt.fit_model(model_key="hertz_para",
                           weight_cp=[1e-6, 5e-7, 0][i % 3],
                           range_x=[0, 0] if i < 3 else [-1e-6 * i, 1e-6])
        rate = [3, 0, 9, 5, 10, 1, 7, 2][i]
        users[f"c{i}"] = rate
        feats[f"c{i}"] = IndentationRater.compute_features(idnt)
        rio.save_hdf5(h5, idnt, user_rate=rate, user_name="verif",
                      user_comment=f"c{i}")
        kept.append(idnt)
    rm = rio.RateManager(h5)
    out = d / "ts_out"
    try:
        rm.export_training_set(out)
        names = IndentationRater.get_feature_names(which_type="all")
        # container order, read independently of the manager
        import h5py
        with h5py.File(h5, "r") as hh:
            order = [hh["analysis"][kk].attrs["user comment"]
                     for kk in hh["analysis"]]
        order = [o.decode() if isinstance(o, bytes) else str(o)
                 for o in order]
        X, y, fn = IndentationRater.load_training_set(
            path=out, names=names, which_type="all", replace_inf=False,
            impute_zero_rated_nan=False, remove_nan=False, ret_names=True)
    except BaseException as e:
        run.failing(SITE_X, "export-roundtrip",
                    f"export/load raised {type(e).__name__}: {e}",
                    payload={"kind": "export"})
        return
    run.case({"export": n, "container_order": order}, kind="export")
    want = np.array([[float("%.2e" % v) for v in feats[c]] for c in order])
    ok = (sorted(order) == sorted(users) and X.shape == want.shape
          and np.array_equal(np.nan_to_num(X, nan=-7.0),
                             np.nan_to_num(want, nan=-7.0))
          and list(np.atleast_1d(y)) == [float(users[c]) for c in order])
    if not ok:
        run.failing(SITE_X, "export-roundtrip",
                    "exported training set does not load back to each "
                    "curve's features (3 significant digits) paired with its "
                    "user rating in container order",
                    payload={"kind": "export"},
                    theorem="C15 (export round trip)")
    # a directory of containers whose file-name order is the opposite of the
    # order of the data hashes they hold: rows still pair with their ratings
    try:
        multi = d / "multi"
        multi.mkdir()
        two = sorted([kept[0], kept[2]],
                     key=lambda ii: rio.hash_file(ii.path))
        plan = [("b.h5", two[0], 2), ("a.h5", two[1], 7)]
        for fn_, ii, rr in plan:
            rio.save_hdf5(multi / fn_, ii, user_rate=rr, user_name="verif",
                          user_comment=fn_)
        rmm = rio.RateManager(multi)
        outm = d / "ts_multi"
        rmm.export_training_set(outm)
        Xm, ym = IndentationRater.load_training_set(
            path=outm, names=names, which_type="all", replace_inf=False,
            impute_zero_rated_nan=False, remove_nan=False)
        run.case({"export": "directory-of-containers"}, kind="export")
        wantm = {}
        for fn_, ii, rr in plan:
            wantm[float(rr)] = np.array([float("%.2e" % v) for v in
                                         IndentationRater.compute_features(ii)])
        okm = Xm.shape[0] == 2 and sorted(np.atleast_1d(ym)) == [2.0, 7.0] \
            and all(np.array_equal(np.nan_to_num(Xm[j], nan=-7.0),
                                   np.nan_to_num(wantm[float(ym[j])],
                                                 nan=-7.0))
                    for j in range(2))
        if not okm:
            run.failing(SITE_X, "export-directory-of-containers",
                        "a directory of two rating containers exported as a "
                        "training set: the feature rows are not paired with "
                        f"their curves' ratings (responses {list(ym)})",
                        payload={"kind": "rerun"},
                        theorem="C15 (export round trip)")
    except BaseException as e:
        run.failing(SITE_X, "export-directory-of-containers",
                    f"raised {type(e).__name__}: {e}",
                    payload={"kind": "rerun"})
    # the container changes while the manager is alive: a stored curve is
    # rated again; the next export of the SAME manager must hold the ratings
    # that are in the container now
    try:
        users["c1"] = 8 if users["c1"] != 8 else 4
        rio.save_hdf5(h5, kept[1], user_rate=users["c1"], user_name="verif",
                      user_comment="c1")
        out2 = d / "ts_out2"
        rm.export_training_set(out2)
        with h5py.File(h5, "r") as hh:
            order2 = [hh["analysis"][kk].attrs["user comment"]
                      for kk in hh["analysis"]]
        order2 = [o.decode() if isinstance(o, bytes) else str(o)
                  for o in order2]
        X2, y2 = IndentationRater.load_training_set(
            path=out2, names=names, which_type="all", replace_inf=False,
            impute_zero_rated_nan=False, remove_nan=False)
    except BaseException as e:
        run.failing(SITE_X, "export-after-rerating",
                    f"export after re-rating raised {type(e).__name__}: {e}",
                    payload={"kind": "rerun"})
        return
    run.case({"export-after-rerating": n, "container_order": order2},
             kind="export")
    if X2.shape[0] != len(order2) or list(np.atleast_1d(y2)) != [
            float(users[c]) for c in order2]:
        run.failing(SITE_X, "export-after-rerating",
                    "after a stored curve was rated again, the export of the "
                    f"same RateManager holds the ratings {list(y2)}, the "
                    f"container holds {[users[c] for c in order2]}",
                    payload={"kind": "rerun"},
                    theorem="C15 (export round trip)")


def check(run):
    run.sources = common.source_digests(
        ["src/nanite/rate/rater.py", "src/nanite/rate/io.py",
         "src/nanite/rate/features.py"])
    gen_all.generate_all()
    common.prove(run, "C15", extra_targets=["Model/Training.vo"])
    run.trusted = [
        "Coq 8.16.1 kernel + vm_compute (exact rational arithmetic)",
        "coq/Model/Training.v hand-written, tied by running the real loader "
        "on scratch directories and the model on the same (text round-"
        "tripped) numbers; means compared within 1e-12",
    ]
    run.assumptions = [
        "numpy.loadtxt/savetxt are oracles (the model starts from what "
        "loadtxt returns); the three-digit text format is exercised, not "
        "modelled",
        "responses are integers 0..10 for the weight theorems",
    ]
    check_loader(run)
    repeated_load_cases(run)
    check_names(run)
    check_weights(run)
    check_export(run)
    run.rule = ("random matrices 1-40 x 1-12 with NaN/inf patterns by row, "
                "column and response class (all-NaN / all-inf columns, "
                "missing classes), feature subsets in shuffled order, flag "
                "combinations: real loader vs Coq model; weights; export "
                "round trip; non-trivial = pattern other than clean")


def replay(rec):
    return common.replay_by_rerun(sys.modules[__name__], rec)
