"""C04 -- reported fit outputs are mutually consistent."""
import copy
import itertools
import math

import sys

import numpy as np

from .. import common, gen_all, gen_formulas, curves, fits

SITE = "nanite.fit.IndentationFitter._fit"


def configs(rng, tier):
    models = ["hertz_para", "hertz_cone", "hertz_pyr3s",
              "sneddon_spher_approx", "power_layer_clifford_2009"]
    n = 60 if tier == "quick" else 1200
    out = []
    for i in range(n):
        mk = models[i % len(models)]
        cfg = {
            "model_key": mk,
            "segment": rng.choice([0, 0, 1]),
            "range_x": rng.choice([[0, 0], [0, 0], [-1.5e-6, 2e-6],
                                   [2e-6, -1.5e-6], [-1e-6, 1e-6],
                                   [float("-inf"), 1e-6], [-5e-7, 5e-7]]),
            "weight_cp": rng.choice([1e-6, 5e-7, 0, False, 2e-6, 1e-7]),
            "gcf_k": rng.choice([1.0, 1.0, 0.5, 2.0, 0.3183098861837907]),
            "method": rng.choice(["leastsq", "leastsq", "least_squares",
                                  "nelder"]),
            "noise": rng.choice([0.0, 1e-11, 5e-11]),
            "fix": rng.choice([None, None, "contact_point", "baseline", "E"]),
            "expr": rng.random() < 0.1,
            "cp_true": rng.uniform(-5e-7, 5e-7),
            "E_true": 10 ** rng.uniform(2, 4.5),
            "bl_true": rng.uniform(-2e-10, 2e-10),
            "seed": i,
        }
        out.append(cfg)
    # intervals that leave the contact point out but reach into its
    # weighting distance (only the indentation part is fitted)
    for j, mk in enumerate(models if tier == "quick" else models * 4):
        out.append({
            "model_key": mk, "segment": [0, 1][j % 2],
            "range_x": [[float("-inf"), -6e-7], [-2e-6, -5.5e-7]][j % 2],
            "weight_cp": [1e-6, 2e-6, 7e-7][j % 3], "gcf_k": 1.0,
            "method": "leastsq", "noise": [0.0, 1e-11][j % 2],
            "fix": ["contact_point", None][(j // 2) % 2], "expr": False,
            "cp_true": [-3e-7, 1e-7, 4e-7][j % 3], "E_true": 2500.0,
            "bl_true": 1e-10, "seed": 9000 + j})
    return out


def run_cfg(cfg):
    from nanite import model
    mk = cfg["model_key"]
    true = fits.default_params(mk, contact_point=cfg["cp_true"],
                               baseline=cfg["bl_true"])
    ekey = "E" if "E" in true else "E_S"
    true[ekey] = cfg["E_true"]
    rng = np.random.default_rng(cfg["seed"])
    cols = fits.model_curve(mk, true, n_app=120, n_ret=60, noise=cfg["noise"],
                            rng=rng)
    idnt = curves.make_indentation(cols)
    p = model.models_available[mk].get_parameter_defaults()
    p["contact_point"].set(value=cfg["cp_true"] + 1e-7)
    p[ekey].set(value=cfg["E_true"] * 1.7)
    fixed = {}
    if cfg["fix"]:
        name = cfg["fix"] if cfg["fix"] in p else ekey
        p[name].set(vary=False)
        fixed[name] = float(p[name].value)
    if cfg["expr"] and "baseline" in p and not cfg["fix"] == "baseline":
        p["baseline"].set(expr=f"{ekey}*1e-15")
    kw = dict(model_key=mk, params_initial=p, segment=cfg["segment"],
              range_x=cfg["range_x"], weight_cp=cfg["weight_cp"],
              gcf_k=cfg["gcf_k"], method=cfg["method"])
    if cfg.get("range_type"):
        kw["range_type"] = cfg["range_type"]
    if cfg["method"] == "nelder":
        kw["method_kws"] = {"max_nfev": 4000}
    with fits.MinimizeCapture() as cap:
        idnt.fit_model(**kw)
    return idnt, cap.calls, p, fixed


def same(a, b):
    a, b = np.asarray(a), np.asarray(b)
    return a.shape == b.shape and a.tobytes() == b.tobytes()


def oracle(run, cfg, idnt, calls, p0, fixed):
    """the relations of C04 evaluated directly with numpy"""
    from nanite import model
    from nanite.model.residuals import compute_contact_point_weights
    fp = idnt.fit_properties
    rec = fits.fit_record(idnt)
    key = "cfg:" + common.sha(cfg)[:16]
    payload = {"kind": "cfg", "cfg": cfg}

    def fail(why, thm):
        run.failing(SITE, key, f"{cfg}: {why}", payload=payload,
                    observed=why, theorem=thm)
    seg, rng_ = rec["seg"], rec["range"]
    if np.any(rng_ & ~seg):
        fail("fit range contains points of the other segment", "C05_mask_exact")
    if not rec["success"]:
        if not (np.isnan(rec["fit"]).all() and np.isnan(rec["res"]).all()):
            fail("unsuccessful fit leaves numbers in the columns",
                 "C04 (unsuccessful)")
        stale = [k for k in ("params_fitted", "chi_sqr", "xmin", "xmax")
                 if k in fp]
        if stale:
            fail(f"unsuccessful fit reports {stale}", "C04 (unsuccessful)")
        return None
    pf = fp["params_fitted"]
    k = rec["k"]
    md = model.models_available[cfg["model_key"]]
    # the fitted parameters in scaled units
    ps = copy.deepcopy(pf)
    cp_scaled = calls[-1]["cp_out"]
    ps["contact_point"].set(value=cp_scaled)
    xk = rec["x"][seg] * k
    want_fit = md.model(ps, xk)
    if not same(rec["fit"][seg], want_fit):
        fail("fit column differs from the model at the reported parameters "
             "on the fitted segment", "C04 (fit column)")
    if not np.isnan(rec["fit"][~seg]).all() or \
            not np.isnan(rec["res"][~seg]).all():
        fail("columns are not NaN outside the fitted segment", "C04")
    w = compute_contact_point_weights(cp_scaled, xk, rec["wd"]) \
        if rec["wd"] else np.ones_like(xk)
    want_res = (rec["y"][seg] - want_fit) * w if rec["wd"] \
        else rec["y"][seg] - want_fit
    # (up to rounding: the bit-exact comparison is the model correspondence's)
    sc_ = max(float(np.nanmax(np.abs(want_res))) if want_res.size else 0.0,
              1e-300)
    if np.asarray(rec["res"][seg]).shape != want_res.shape or not np.all(
            np.abs(rec["res"][seg] - want_res) <= 1e-12 * sc_):
        fail("residual column is not (data - fit) * weights",
             "C04_residual_column")
    if rec["wd"]:
        d = np.abs(xk - cp_scaled)
        lin = np.minimum(d / rec["wd"], 1)
        if not np.allclose(w, lin, rtol=0, atol=1e-15) or w.min() < 0 \
                or w.max() > 1:
            fail("weights are not the linear ramp", "C04_weights_linear")
    chi = float(np.sum(rec["res"][rng_] ** 2))
    # lmfit floors chisqr at 1e-250 * ndata ("to avoid zero"): an exact fit of
    # noise-free data reports that floor, not 0
    floor = 1e-250 * max(int(rng_.sum()), 1)
    if not math.isclose(chi, float(rec["chi"]), rel_tol=1e-9,
                        abs_tol=max(1e-300, 1.0000001 * floor)):
        fail(f"chi_sqr {rec['chi']} is not the sum of squared residuals "
             f"{chi}", "C04 (chi-square)")
    if abs(float(pf["contact_point"].value) - cp_scaled / k) > 0:
        fail("reported contact point is not the optimised one / k", "C11")
    for name, v in fixed.items():
        got = float(pf[name].value)
        if name == "contact_point":
            okv = math.isclose(got, v, rel_tol=4e-16, abs_tol=0)
        else:
            okv = got == v
        if not okv:
            fail(f"fixed parameter {name} changed from {v!r} to {got!r}",
                 "C04_fixed_contact_point_kept")
    for name, par in pf.items():
        if not (par.min <= par.value <= par.max):
            fail(f"{name}={par.value} outside its bounds", "C04 (bounds)")
    if cfg["expr"] and cfg["fix"] != "baseline" and "baseline" in pf:
        ekey = "E" if "E" in pf else "E_S"
        if not pf["baseline"].expr:
            fail("the baseline was declared with the expression "
                 f"'{ekey}*1e-15' but is reported without one",
                 "C04 (expr)")
        elif not math.isclose(pf["baseline"].value, pf[ekey].value * 1e-15,
                              rel_tol=1e-12):
            fail("expression-constrained baseline violates its expression",
                 "C04 (expr)")
    return cp_scaled


def unsuccessful_cases(run):
    """too few points in a single pass and in a later pass"""
    # (the last two: an approach part of four points -- already the first
    # pass, over the whole segment, has too few points)
    for rt, rx, n_app in [("absolute", [5e-6, 5.00001e-6], 100),
                          ("relative cp", [1e-3, 2e-3], 100),
                          ("absolute", [-1.99e-6, -1.97e-6], 100),
                          ("absolute", [0, 0], 4),
                          ("relative cp", [-1e-6, 1e-6], 4)]:
        cols = fits.model_curve("hertz_para", fits.default_params(
            "hertz_para", contact_point=1e-7), n_app=n_app, n_ret=50)
        idnt = curves.make_indentation(cols)
        cfg = {"model_key": "hertz_para", "range_type": rt, "range_x": rx,
               "unsuccessful": True, "n_app": n_app}
        try:
            idnt.fit_model(model_key="hertz_para", range_type=rt, range_x=rx)
        except BaseException as e:
            run.failing(SITE, "unsuccessful:" + rt + str(rx)
                        + ("" if n_app == 100 else f":{n_app}-points"),
                        f"too few points ({rt} {rx}, approach part of "
                        f"{n_app} points) raised {type(e).__name__}: {e} "
                        "instead of leaving an unsuccessful fit",
                        payload={"kind": "unsuccessful", "cfg": cfg},
                        theorem="C04_outcome_is_last_pass")
            continue
        run.case(cfg, kind="unsuccessful")
        fp = idnt.fit_properties
        bad = []
        if fp.get("success"):
            continue
        if not np.isnan(idnt["fit"]).all():
            bad.append("fit column has numbers")
        bad += [k for k in ("params_fitted", "chi_sqr", "xmin", "xmax")
                if k in fp]
        if bad:
            run.failing(SITE, "unsuccessful:" + rt + str(rx),
                        f"unsuccessful fit ({rt}, {rx}) leaves {bad}",
                        payload={"kind": "unsuccessful", "cfg": cfg},
                        theorem="C04 (unsuccessful)")


def bounds_history_cases(run):
    """a successful fit followed, on the same curve, by a request whose
    initial parameters differ from the stored ones only in a bound that
    excludes the value fitted before: afterwards the reported outputs must be
    those of a fit inside the new bounds (all relations of C04), never the
    earlier result"""
    n = 8 if run.tier == "quick" else 80
    cfgs = [c for c in configs(run.rng, run.tier)
            if c["method"] == "leastsq" and not c["expr"]
            and c["fix"] != "E"][:n]
    for cfg in cfgs:
        cfg = dict(cfg, history="tighter-bound")
        key = "hist:" + common.sha(cfg)[:16]
        payload = {"kind": "rerun"}
        try:
            idnt, calls, p0, fixed = run_cfg(cfg)
            fp = idnt.fit_properties
            if not fp.get("success"):
                continue
            ekey = "E" if "E" in fp["params_fitted"] else "E_S"
            e1 = float(fp["params_fitted"][ekey].value)
            p2 = copy.deepcopy(fp["params_initial"])
            side = cfg["seed"] % 2
            # the start value (1.7 E_true) stays inside, the earlier result
            # (about E_true) is excluded / or: only the upper bound moves
            # and the earlier result stays admissible
            if side == 0:
                p2[ekey].set(min=min(1.3 * e1, 0.9 * float(p2[ekey].value)))
            else:
                p2[ekey].set(max=10 * float(p2[ekey].value))
            with fits.MinimizeCapture() as cap:
                idnt.fit_model(params_initial=p2)
        except BaseException as e:
            run.failing(SITE, key, f"{cfg}: raised {type(e).__name__}: {e}",
                        payload=payload)
            continue
        run.case(cfg, kind="bounds-history")
        fp = idnt.fit_properties
        pi = fp["params_initial"]
        if fp.get("success"):
            for name, par in fp["params_fitted"].items():
                lo, hi = float(pi[name].min), float(pi[name].max)
                if par.vary and not (lo <= float(par.value) <= hi):
                    run.failing(
                        SITE, key, f"{cfg}: after a request with bounds "
                        f"[{lo}, {hi}] for {name} the curve reports success "
                        f"with {name} = {par.value!r} (the result of the "
                        "earlier fit)", payload=payload,
                        theorem="C04 (bounds)")
            if not cap.calls and side == 0:
                run.failing(SITE, key + "|no-fit", f"{cfg}: bounds of the "
                            "initial parameters changed, results are shown "
                            "without a new optimisation", payload=payload,
                            theorem="C04 (bounds)")
            elif cap.calls:
                oracle(run, cfg, idnt, cap.calls, p2, fixed)


def analysis_history_cases(run):
    """a successful fit followed by the analysis-only calls
    compute_emodulus_mindelta / estimate_optimal_mindelta on the same curve:
    the reported outputs must still be those of the fit (all relations of C04
    re-checked against the optimisation that produced the columns)"""
    n = 4 if run.tier == "quick" else 40
    cfgs = [c for c in configs(run.rng, run.tier)
            if c["method"] == "leastsq" and not c["expr"]
            and c["segment"] == 0
            # (the E(delta) scan reads the parameter named E: not defined for
            # the layered model, see the C19/C20 finding)
            and not c["model_key"].startswith("power_layer")][:n]
    for cfg in cfgs:
        cfg = dict(cfg, history="scan-after-fit")
        key = "hist:" + common.sha(cfg)[:16]
        try:
            idnt, calls, p0, fixed = run_cfg(cfg)
            if not idnt.fit_properties.get("success"):
                continue
            before = {k: copy.deepcopy(idnt.fit_properties.get(k))
                      for k in ("hash", "chi_sqr", "xmin", "xmax", "success")}
            import warnings
            from nanite.fit import IndentationFitter
            with warnings.catch_warnings():
                warnings.simplefilter("ignore")
                idnt.compute_emodulus_mindelta()
                idnt.estimate_optimal_mindelta()
                # a fitter of the caller's own on the fitted curve (another
                # range): what the curve reports stays the curve's fit
                IndentationFitter(idnt, range_x=[-5e-7, 5e-7]).fit()
        except BaseException as e:
            run.failing(SITE, key, f"{cfg}: raised {type(e).__name__}: {e}",
                        payload={"kind": "rerun"})
            continue
        run.case(cfg, kind="scan-history")
        fp = idnt.fit_properties
        changed = [k for k, v in before.items() if fp.get(k) != v]
        if changed:
            run.failing(SITE, key + "|changed", f"{cfg}: an E(delta) scan "
                        f"after the fit changed the reported {changed} "
                        "although no fit setting changed",
                        payload={"kind": "rerun"}, theorem="C04 (fit column)")
        oracle(run, cfg, idnt, calls, p0, fixed)


def weights_history_cases(run):
    """fits in a row that share contact point (held fixed), weighting
    distance and number of points but not the abscissa (another correction
    factor, another curve of equal length): the weights of every fit are the
    ramp on ITS abscissa"""
    from nanite import model
    n = 2 if run.tier == "quick" else 10
    for t in range(n):
        mk = ["hertz_para", "hertz_cone"][t % 2]
        true = fits.default_params(mk, contact_point=0.0,
                                   baseline=1e-11 * (t + 1))
        ekey = "E"
        true[ekey] = 2000.0 * (t + 1)
        curves_ = [fits.model_curve(mk, true, n_app=120, n_ret=60,
                                    noise=1e-11,
                                    rng=np.random.default_rng(500 + t)),
                   fits.model_curve(mk, dict(true, E=true[ekey] * 3), n_app=120,
                                    n_ret=60, noise=1e-11, z0=5e-6,
                                    rng=np.random.default_rng(600 + t))]
        plan = [(0, 1.0), (0, 0.5), (0, 2.0), (1, 2.0), (1, 0.5)]
        idnts = {}
        for which, k in plan:
            cfg = {"model_key": mk, "segment": 0, "range_x": [0, 0],
                   "weight_cp": 1e-6, "gcf_k": k, "method": "leastsq",
                   "noise": 1e-11, "fix": "contact_point", "expr": False,
                   "cp_true": 0.0, "E_true": true[ekey], "bl_true": 0.0,
                   "seed": 500 + t, "history": f"weights:{which}:{k}"}
            key = "hist:" + common.sha(cfg)[:16]
            run.case(cfg, kind="weights-history")
            try:
                if which not in idnts:
                    idnts[which] = curves.make_indentation(curves_[which])
                idnt = idnts[which]
                p = model.models_available[mk].get_parameter_defaults()
                p["contact_point"].set(value=0.0, vary=False)
                p[ekey].set(value=true[ekey] * 1.5)
                with fits.MinimizeCapture() as cap:
                    idnt.fit_model(model_key=mk, params_initial=p, segment=0,
                                   range_x=[0, 0], weight_cp=1e-6, gcf_k=k,
                                   method="leastsq")
                if cap.calls:
                    oracle(run, cfg, idnt, cap.calls, p,
                           {"contact_point": 0.0})
            except BaseException as e:
                run.failing(SITE, key, f"{cfg}: raised {type(e).__name__}: "
                            f"{e}", payload={"kind": "rerun"})


def multipass_expr_cases(run):
    """contact-point-relative (four pass) fits with a parameter tied to the
    modulus by an expression: the expression is still declared and satisfied
    in the reported parameters, and all other relations hold"""
    n = 3 if run.tier == "quick" else 30
    k = 0
    for cfg in configs(run.rng, run.tier):
        if cfg["method"] != "leastsq" or cfg["fix"] == "baseline" or \
                cfg["model_key"].startswith("power_layer"):
            continue
        cfg = dict(cfg, expr=True, range_type="relative cp",
                   range_x=[-1.5e-6, 1e-6], noise=2e-11,
                   history="multipass-expr")
        key = "hist:" + common.sha(cfg)[:16]
        try:
            idnt, calls, p0, fixed = run_cfg(cfg)
        except BaseException as e:
            run.failing(SITE, key, f"{cfg}: raised {type(e).__name__}: {e}",
                        payload={"kind": "rerun"})
            continue
        run.case(cfg, kind="multipass-expr")
        if idnt.fit_properties.get("success") and calls:
            oracle(run, cfg, idnt, calls, p0, fixed)
        k += 1
        if k >= n:
            break


def recorded_relative_cases(run):
    """contact-point-relative fits of recorded (noisy) curves, whose contact
    point need not settle within the four passes: the points flagged in the
    'fit range' column are the points the reported results come from --
    chi-square is the sum of the squared residual column over them and
    xmin / xmax are their extreme abscissae"""
    import warnings
    from nanite import IndentationGroup
    data = common.REPO / "tests" / "data"
    files = sorted(f for f in data.glob("fmt-jpk-fd_s*.jpk-force"))
    if run.tier == "quick":
        files = [f for f in files if "bad" in f.name][:2] + \
            [f for f in files if "bad" not in f.name][:1]
    ranges = [(-3e-7, 1e-6), (-2e-6, 1e-6)] if run.tier == "quick" else \
        [(-5e-7, 2e-7), (-1e-6, 5e-7), (-3e-7, 1e-6), (-2e-6, 1e-6)]
    for f in files:
        for rx in ranges:
            for wcp in (False, 5e-7):
                key = f"recorded-relative:{f.name}:{rx}:{wcp}"
                try:
                    with warnings.catch_warnings():
                        warnings.simplefilter("ignore")
                        idnt = IndentationGroup(f)[0]
                        idnt.apply_preprocessing(["compute_tip_position",
                                                  "correct_force_offset",
                                                  "correct_tip_offset"])
                        idnt.fit_model(model_key="hertz_para",
                                       range_type="relative cp",
                                       range_x=list(rx), weight_cp=wcp,
                                       segment=0, x_axis="tip position",
                                       y_axis="force")
                except BaseException as e:
                    run.case({"recorded-relative": f.name, "raised":
                              type(e).__name__}, kind="recorded-relative-raised")
                    continue
                fp = idnt.fit_properties
                run.case({"recorded-relative": f.name, "range_x": list(rx),
                          "weight_cp": wcp}, nontrivial=True,
                         kind="recorded-relative-" + (
                             "ok" if fp.get("success") else "unsuccessful"))
                if not fp.get("success"):
                    continue
                used = np.asarray(idnt["fit range"], dtype=bool)
                res = np.asarray(idnt["fit residuals"], float)
                xu = np.asarray(idnt["tip position"], float)[used]
                why = None
                if xu.size == 0:
                    why = "success True but no point is flagged as fitted"
                else:
                    chi = float(np.sum(res[used] ** 2))
                    if not math.isclose(chi, float(fp["chi_sqr"]),
                                        rel_tol=1e-9, abs_tol=1e-240):
                        why = (f"chi_sqr {fp['chi_sqr']} is not the sum of "
                               f"squared residuals over the flagged points "
                               f"{chi}")
                    elif not (math.isclose(float(xu.min()), fp["xmin"],
                                           rel_tol=1e-12, abs_tol=0)
                              and math.isclose(float(xu.max()), fp["xmax"],
                                               rel_tol=1e-12, abs_tol=0)):
                        why = (f"xmin/xmax [{fp['xmin']}, {fp['xmax']}] are "
                               f"not the extreme abscissae [{xu.min()}, "
                               f"{xu.max()}] of the {xu.size} flagged points")
                if why:
                    run.failing(SITE, key, f"{f.name} relative {list(rx)} "
                                f"weight {wcp}: {why}",
                                payload={"kind": "rerun"},
                                theorem="C04 (chi-square) / C05_xmin_xmax")


OUTCOME_HEAD = """From Coq Require Import List Bool Arith.
From NV Require Import Model.FitCore Model.FitOutcome Model.FitRelative.
Import ListNotations.
Definition o (seg : list bool) (n : nat) : optres nat nat :=
  mkO n n (repeat n (count seg)) (repeat n (count seg)) n n.
Definition isnum (l : list (option nat)) : list bool :=
  map (fun v => match v with Some _ => true | None => false end) l.
Definition oeq (a b : option nat) : bool :=
  match a, b with Some x, Some y => Nat.eqb x y | None, None => true | _, _ => false end.
Fixpoint beq (a b : list bool) : bool :=
  match a, b with
  | [], [] => true
  | x :: a', y :: b' => Bool.eqb x y && beq a' b'
  | _, _ => false
  end.
Fixpoint number (seg : list bool) (i : nat) (l : list (nat * nat)) : list (pass nat nat) :=
  match l with [] => [] | (v, n) :: t => mkP v n (o seg i) :: number seg (S i) t end.
(* the state before: what a previous successful fit (marked 999) left *)
Definition before (seg : list bool) (prev : bool) : fstate nat nat :=
  if prev then mkF (scatter seg (repeat 999 (count seg))) (scatter seg (repeat 999 (count seg)))
                   true (Some 999) (Some 999) (Some 999) (Some 999)
  else mkF (blank seg) (blank seg) false None None None None.
Definition agrees (seg : list bool) (prev : bool) (l : list (nat * nat))
    (succ : bool) (fitted chi xmin xmax : option nat) (pc pr : list bool) : bool :=
  let s := fit_outcome seg (before seg prev) (number seg 0 l) in
  Bool.eqb (f_success s) succ && oeq (f_fitted s) fitted && oeq (f_chi s) chi
  && oeq (f_xmin s) xmin && oeq (f_xmax s) xmax
  && beq (isnum (f_cur s)) pc && beq (isnum (f_res s)) pr.
"""


def outcome_model_cases(run):
    """coq/Model/FitOutcome.v against the library: sequences of fits on one
    curve (absolute, contact-point-relative and plateau-search fits, some of
    which cannot be done in their last pass); the passes are recorded by
    wrapping IndentationFitter._fit in this process, and the state left by
    every fit_model call is compared with the model's outcome for the same
    passes (which pass the reported parameters, chi-square and xmin/xmax come
    from, success, and where the two columns hold numbers)."""
    import nanite.fit as nfit
    log = []
    orig = nfit.IndentationFitter._fit

    def snap(fp):
        pf = fp.get("params_fitted")
        return (None if pf is None else
                tuple((k, float(v.value)) for k, v in pf.items()),
                fp.get("chi_sqr"), fp.get("xmin"), fp.get("xmax"))

    def wrapped(self):
        nv = int(np.sum([p.vary for p in self.fp["params_initial"].values()]))
        npnts = int(np.sum(self.fit_range))
        orig(self)
        log.append((nv, npnts, bool(self.fp["success"]), snap(self.fp)))

    A = dict(range_type="absolute", range_x=[0, 0])
    B = dict(range_type="absolute", range_x=[5e-6, 5.00001e-6])
    C = dict(range_type="relative cp", range_x=[1e-3, 2e-3])
    D = dict(range_type="relative cp", range_x=[-1e-6, 1e-6])
    E = dict(range_type="absolute", range_x=[-1.5e-6, 1e-6],
             optimal_fit_edelta=True, optimal_fit_num_samples=20)
    F = dict(range_type="absolute", range_x=[-1.99e-6, -1.97e-6])
    OFF = dict(optimal_fit_edelta=False)
    seqs = [[A, B], [A, C], [C, A], [D, C, B, A], [B, D], [A, F, D],
            [E, dict(B, **OFF)], [E, dict(C, **OFF), dict(A, **OFF)],
            [D, dict(E), dict(F, **OFF)], [C, B, F]]
    if run.tier == "thorough":
        pool = [A, B, C, D, F]
        for _ in range(25):
            seqs.append([dict(pool[run.rng.randrange(len(pool))])
                         for _ in range(run.rng.randrange(2, 6))])
    exprs, descr = [], []
    nfit.IndentationFitter._fit = wrapped
    try:
        for si, seq in enumerate(seqs):
            for segment in (0, 1):
                cols = fits.model_curve("hertz_para", fits.default_params(
                    "hertz_para", contact_point=1e-7), n_app=100, n_ret=50)
                idnt = curves.make_indentation(cols)
                prev = False
                for ci, kw in enumerate(seq):
                    del log[:]
                    what = f"sequence {si} segment {segment} call {ci} {kw}"
                    try:
                        idnt.fit_model(model_key="hertz_para", segment=segment,
                                       **kw)
                    except BaseException as e:
                        # a refused request (plateau search on unsuitable
                        # data, ...) is not a fit; nothing to compare
                        run.case({"outcome": what, "raised": type(e).__name__},
                                 kind="outcome-raised")
                        break
                    fp = idnt.fit_properties
                    if not log:
                        continue        # same hash: nothing was done
                    run.case({"outcome": what}, nontrivial=True,
                             kind="outcome-%d-passes-%s" % (
                                 len(log), "ok" if fp.get("success") else "refused"))
                    fin = snap(fp)

                    def idx(j):
                        if fin[j] is None:
                            return "None"
                        m = [i for i, l_ in enumerate(log)
                             if l_[2] and l_[3][j] == fin[j]]
                        return "(Some %d)" % (m[-1] if m else 998)
                    seg = np.asarray(idnt["segment"]) == segment
                    b = lambda a: "[" + ";".join(
                        "true" if v else "false" for v in a) + "]"
                    exprs.append(
                        "agrees %s %s [%s] %s %s %s %s %s %s %s" % (
                            b(seg), "true" if prev else "false",
                            ";".join("(%d,%d)" % (l_[0], l_[1]) for l_ in log),
                            "true" if fp.get("success") else "false",
                            idx(0), idx(1), idx(2), idx(3),
                            b(~np.isnan(idnt["fit"])),
                            b(~np.isnan(idnt["fit residuals"]))))
                    descr.append(what)
                    # the pass schedule of a relative fit (Model/FitRelative.v)
                    if kw.get("range_type") == "relative cp" and \
                            not fp.get("optimal_fit_edelta"):
                        exprs.append("rel_shape [%s]" % ";".join(
                            "(%d,%d)" % (l_[0], l_[1]) for l_ in log))
                        descr.append(what + " (pass schedule: "
                                     + str([l_[:3] for l_ in log]) + ")")
                    prev = bool(fp.get("success"))
    finally:
        nfit.IndentationFitter._fit = orig
    bad = fits.eval_bool_cases(run, "c04_outcome", exprs, descr,
                               head=OUTCOME_HEAD, chunk=30)
    for i in bad:
        run.failing(SITE, "outcome:" + common.sha(descr[i])[:16],
                    f"{descr[i]}: what the fit leaves behind / its pass "
                    "schedule differs from the model (coq/Model/FitOutcome.v, "
                    "FitRelative.v): "
                    + exprs[i][-200:],
                    payload={"kind": "rerun"},
                    theorem="C04_outcome_is_last_pass")
    run.extra["outcome_model_cases"] = len(exprs)


def check(run):
    run.sources = common.source_digests(
        ["src/nanite/fit.py", "src/nanite/model/residuals.py",
         "src/nanite/indent.py"])
    try:
        gen_all.generate_all()
        models, trw = gen_formulas.translate_all()
        worst = gen_formulas.self_check({}, trw, n=300, seed=run.seed)
        run.obligation("translator-self-check(weights)",
                       worst["contact_point_weights"] == 0, str(worst))
    except gen_formulas.TranslationError as e:
        run.obligation("translation", False, str(e))
    common.prove(run, "C04", extra_targets=["Model/FitCoreF.vo",
                                            "Gen/WeightsF.vo",
                                            "Model/FitOutcome.vo",
                                            "Model/FitRelative.vo"])
    run.trusted = [
        "Coq 8.16.1 kernel + vm_compute with primitive floats (bit-exact "
        "execution of the binary64 instance); Reals axioms for the theorems",
        "tools/nv/gen_formulas.py (weights translated to R and to PrimFloat "
        "from one IR; IR validated against the source, 0 ulp)",
        "coq/Model/FitCore.v hand-written, tied by bit-exact comparison of "
        "masks, xmin/xmax and residual columns of real fits",
    ]
    run.assumptions = [
        "lmfit keeps fixed parameters, respects bounds and expressions and "
        "returns chisqr = sum of squared residuals (asserted on every fit)",
        "the R and binary64 instances share one definition; round-off between "
        "them is not verified",
    ]
    exprs, descr = [], []
    for cfg in configs(run.rng, run.tier):
        try:
            idnt, calls, p0, fixed = run_cfg(cfg)
        except BaseException as e:
            run.failing(SITE, "cfg:" + common.sha(cfg)[:16],
                        f"{cfg}: fit raised {type(e).__name__}: {e}",
                        payload={"kind": "cfg", "cfg": cfg})
            continue
        fp = idnt.fit_properties
        run.case(cfg, nontrivial=True,
                 kind=("ok-" if fp.get("success") else "unsuccessful-")
                 + cfg["model_key"])
        cp_scaled = oracle(run, cfg, idnt, calls, p0, fixed)
        if cp_scaled is not None:
            rec = fits.fit_record(idnt)
            for e in fits.coq_exprs_for_fit(rec, cp_scaled):
                exprs.append(e)
                descr.append(str(cfg))
    fits.eval_bool_cases(run, "c04_fit", exprs, descr)
    unsuccessful_cases(run)
    bounds_history_cases(run)
    analysis_history_cases(run)
    weights_history_cases(run)
    multipass_expr_cases(run)
    outcome_model_cases(run)
    recorded_relative_cases(run)
    for kf in run.known:
        if kf.get("status") == "fixed":
            m_ = kf.get("match", {})
            keys = set(m_.get("keys") or [m_.get("key")])
            run.fixed_must_pass(kf["id"], not any(
                v["site"] == SITE and str(v["key"]) in keys
                for v in run.violations))
    run.extra["coq_relations_checked"] = len(exprs)
    run.rule = ("synthetic curves from the five shipped models x segment x "
                "range (incl. inverted, one-sided) x weighting distance x "
                "correction factor x minimiser x fixed/varied/expression "
                "parameters x noise: every relation of C04 evaluated with "
                "numpy, and masks / xmin / xmax / residual columns recomputed "
                "bit-exactly by the Coq binary64 model; distinct by config")


def replay(rec):
    pl = rec.get("payload") or {}
    if pl.get("kind") != "cfg":
        return common.replay_by_rerun(sys.modules[__name__], rec)

    class R:
        bad = False

        def failing(self, *a, **k):
            R.bad = True
    cfg = pl["cfg"]
    idnt, calls, p0, fixed = run_cfg(cfg)
    oracle(R(), cfg, idnt, calls, p0, fixed)
    return not R.bad
