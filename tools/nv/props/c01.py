"""C01 -- fitting recovers the generating parameters (partial: see DESIGN).
The theorems give: the truth has zero residual (global minimum of chi-square)
and, for power laws, is the unique exact fit.  That the third-party optimisers
reach it from the stated basin is explored by this recovery sweep."""
import math
import warnings

import random
import sys

import numpy as np

from .. import common, gen_all, gen_formulas, curves, fits

SITE = "nanite.indent.Indentation.fit_model"

# stated convergence basin (calibrated on the unchanged tree, frozen):
#   E0 in [E/5, 5E], cp0 within +-3 % of the approach range of cp,
#   baseline0 within +-0.05 Fmax, geometry parameters at their true values
BASIN = {"E": 5.0, "cp": 0.03, "bl": 0.05}
TOL = {"leastsq": (1e-6, 1e-7, 1e-7), "least_squares": (1e-5, 1e-6, 1e-6),
       "nelder": (2e-2, 5e-3, 5e-3)}
NOISE_C = 25.0        # |E^/E - 1| <= NOISE_C * sigma / Fmax  (leastsq)


def one_case(rng, i, tier):
    models = ["hertz_para", "hertz_cone", "hertz_pyr3s",
              "sneddon_spher_approx", "power_layer_clifford_2009"]
    mk = models[i % 5]
    ekey = "E_S" if mk.startswith("power_layer") else "E"
    E = 10 ** rng.uniform(1.5, 5.0)
    cp = rng.uniform(-5e-7, 1.5e-6)      # indentation depth >= 1.5 um
    over = {ekey: E, "contact_point": cp}
    if "R" in fits.default_params(mk):
        over["R"] = 10 ** rng.uniform(-5.5, -4.5)
    if "alpha" in fits.default_params(mk):
        over["alpha"] = rng.uniform(5, 28)
    if mk.startswith("power_layer"):
        over["E_L"] = min(E * rng.uniform(0.05, 0.5), 900.0)
        over["t"] = 10 ** rng.uniform(-7.5, -6.5)
    true = fits.default_params(mk, **over)
    n_app = rng.choice([60, 200, 600] if tier == "quick" else
                       [50, 120, 300, 800, 2000])
    jitter = rng.random() < 0.4
    segment = rng.choice([0, 0, 1])
    method = rng.choice(["leastsq", "leastsq", "leastsq", "least_squares",
                         "nelder"])
    # weighting width at most a third of the smallest indentation depth
    weight = rng.choice([0, 0, 5e-7, 2e-7, 1e-7])
    noise_rel = rng.choice([0.0, 0.0, 1e-4, 1e-3, 1e-2])
    if method == "nelder":
        noise_rel = 0.0
        if mk.startswith("power_layer"):
            # Nelder-Mead walks onto the bound E_S = 0, where the layered
            # model divides by zero (ZeroDivisionError): outside the claim
            method = "leastsq"
    # a restricted absolute interval that still holds baseline and most of
    # the indentation (both segments), or the whole segment
    rx = [0, 0]
    if rng.random() < 0.4:
        rx = [-1.6e-6, float(cp + rng.uniform(1.0e-6, 2.5e-6))]
        if rng.random() < 0.3:
            rx = rx[::-1]
    # the interval given relative to the contact point (fitted in several
    # passes), a fifth of the cases: whole segment (0, 0) or an interval
    # holding the baseline and most of the indentation
    r2 = random.Random(7919 * (i + 1))
    rtype = "absolute"
    if r2.random() < 0.2 and method != "nelder":
        rtype = "relative cp"
        rx = [0, 0]
        if r2.random() < 0.5:
            rx = [-(1.1e-6 + r2.random() * 1e-6), r2.uniform(1.0e-6, 2.5e-6)]
    return dict(model=mk, true=true, n_app=int(n_app), jitter=jitter,
                segment=segment, method=method, weight_cp=weight,
                noise_rel=noise_rel, seed=i, range_x=rx, range_type=rtype)


def run_case(cfg, rng):
    from nanite import model
    mk, true = cfg["model"], cfg["true"]
    ekey = "E_S" if mk.startswith("power_layer") else "E"
    nrng = np.random.default_rng(cfg["seed"])
    cols0 = fits.model_curve(mk, true, n_app=cfg["n_app"],
                             n_ret=cfg["n_app"] // 2, jitter=cfg["jitter"],
                             rng=nrng)
    bl_true = rng.uniform(-0.1, 0.1) * float(np.max(cols0["force"]))
    true = dict(true, baseline=bl_true)
    cols = fits.model_curve(mk, true, n_app=cfg["n_app"],
                            n_ret=cfg["n_app"] // 2, jitter=cfg["jitter"],
                            rng=np.random.default_rng(cfg["seed"]))
    fmax = float(np.max(np.abs(cols["force"] - bl_true)))
    sigma = cfg["noise_rel"] * fmax
    if sigma:
        cols["force"] = cols["force"] + sigma * nrng.standard_normal(
            cols["force"].size)
        cols["height (measured)"] = cols["tip position"] - cols["force"] / .05
    idnt = curves.make_indentation(cols)
    p = model.models_available[mk].get_parameter_defaults()
    span = float(np.ptp(cols["tip position"]))
    for name in p:
        if name in true and name not in (ekey, "contact_point", "baseline"):
            p[name].set(value=true[name])
    if mk.startswith("power_layer"):
        p["E_L"].set(vary=False)
        p["t"].set(vary=False)
    p[ekey].set(value=true[ekey] * BASIN["E"] ** rng.uniform(-1, 1))
    p["contact_point"].set(value=true["contact_point"]
                           + rng.uniform(-1, 1) * BASIN["cp"] * span)
    p["baseline"].set(value=bl_true + rng.uniform(-1, 1) * BASIN["bl"] * fmax)
    kw = dict(model_key=mk, params_initial=p, segment=cfg["segment"],
              method=cfg["method"], weight_cp=cfg["weight_cp"],
              range_x=list(cfg.get("range_x", [0, 0])),
              range_type=cfg.get("range_type", "absolute"))
    if cfg["method"] == "nelder":
        kw["method_kws"] = {"max_nfev": 20000, "tol": 1e-14}
    elif cfg["method"] == "least_squares":
        # scipy's trust-region solver stops on its default tolerances long
        # before the minimum of these tiny (1e-18 N^2) objectives: the stated
        # configuration for this minimiser tightens them
        kw["method_kws"] = {"x_scale": "jac", "ftol": 1e-15, "xtol": 1e-15,
                            "gtol": 1e-15}
    with warnings.catch_warnings():
        warnings.simplefilter("ignore")
        idnt.fit_model(**kw)
    return idnt, true, cols, fmax, span, sigma


def refit_sequences(run):
    """the same curve object fitted twice: first handicapped (a bound that pins
    the modulus, a fixed wrong contact point, a range without contact), then
    with the handicap lifted and otherwise identical settings -- the second
    fit must recover the generating parameters"""
    from nanite import model
    for mk in ["hertz_para", "hertz_cone", "sneddon_spher_approx"]:
        true = fits.default_params(mk, E=5000.0, contact_point=3e-7,
                                   baseline=2e-11)
        cols = fits.model_curve(mk, true, n_app=300, n_ret=100)
        fmax = float(np.max(np.abs(cols["force"])))
        span = float(np.ptp(cols["tip position"]))

        def start():
            p = model.models_available[mk].get_parameter_defaults()
            for name in p:
                if name in true and name not in ("E", "contact_point",
                                                 "baseline"):
                    p[name].set(value=true[name])
            p["E"].set(value=1500.0)
            p["contact_point"].set(value=3.2e-7)
            p["baseline"].set(value=0.0)
            return p
        handicaps = {
            "upper bound of E below the truth": (
                lambda p: p["E"].set(max=2000.0), {}, {}),
            "contact point fixed at a wrong value": (
                lambda p: p["contact_point"].set(vary=False, value=1e-6), {},
                {}),
            "fit range without any contact": (
                lambda p: None, {"range_x": [1.5e-6, 5e-6]},
                {"range_x": [0, 0]}),
        }
        for hname, (edit, kw1, kw2) in handicaps.items():
            idnt = curves.make_indentation(cols)
            key = f"refit:{mk}:{hname}"
            run.case({"refit": hname, "model": mk}, kind="refit")
            try:
                with warnings.catch_warnings():
                    warnings.simplefilter("ignore")
                    p1 = start()
                    edit(p1)
                    idnt.fit_model(model_key=mk, params_initial=p1, **kw1)
                    idnt.fit_model(model_key=mk, params_initial=start(),
                                   **kw2)
                pf = idnt.fit_properties["params_fitted"]
                eE = abs(pf["E"].value / true["E"] - 1)
                ec = abs(pf["contact_point"].value
                         - true["contact_point"]) / span
                eb = abs(pf["baseline"].value - true["baseline"]) / fmax
                seg = np.asarray(idnt["segment"] == 0)
                d = np.max(np.abs(np.asarray(idnt["fit"])[seg]
                                  - np.asarray(idnt["force"])[seg])) / fmax
                why = None
                if max(eE, ec, eb) > 1e-5 or d > 1e-5:
                    why = (f"after lifting [{hname}] the second fit reports "
                           f"E error {eE:.2e}, cp {ec:.2e}, baseline {eb:.2e},"
                           f" curve deviation {d:.2e} Fmax")
            except BaseException as e:
                why = f"raised {type(e).__name__}: {e}"
            if why:
                run.failing(SITE, key, f"{mk}: {why}",
                            payload={"kind": "refit", "model": mk,
                                     "handicap": hname},
                            theorem="C01 (recovery; not a theorem)")


def pipeline_change_sequences(run):
    """a curve fitted with the user's geometry (fixed, not the model default),
    then the preprocessing is changed WITHOUT passing the parameters again
    (settings are remembered): the refit still uses that geometry and recovers
    the generating modulus"""
    from nanite import model
    base = ["compute_tip_position"]
    changes = {
        "tip offset switched on": (base, base + ["correct_tip_offset"]),
        "tip offset switched off": (base + ["correct_tip_offset"], base),
        "force offset added": (base, base + ["correct_force_offset"]),
        "tip offset on, then force offset": (
            base, base + ["correct_tip_offset", "correct_force_offset"]),
    }
    for mk, geo in (("hertz_para", {"R": 5e-6}), ("hertz_cone",
                                                   {"alpha": 12.0}),
                    ("sneddon_spher_approx", {"R": 2.5e-5, "nu": 0.4})):
        true = fits.default_params(mk, E=5000.0, contact_point=3e-7,
                                   baseline=0.0, **geo)
        cols = fits.model_curve(mk, true, n_app=300, n_ret=100)
        for cname, (pre1, pre2) in changes.items():
            key = f"pipeline-change:{mk}:{cname}"
            run.case({"pipeline-change": cname, "model": mk, "geometry": geo},
                     kind="pipeline-change")
            try:
                with warnings.catch_warnings():
                    warnings.simplefilter("ignore")
                    idnt = curves.make_indentation(cols)
                    p = model.models_available[mk].get_parameter_defaults()
                    for g_, v_ in geo.items():
                        p[g_].set(value=v_, vary=False)
                    p["E"].set(value=2000.0)
                    p["contact_point"].set(value=3.3e-7)
                    idnt.fit_model(model_key=mk, params_initial=p,
                                   preprocessing=list(pre1))
                    e1 = abs(idnt.fit_properties["params_fitted"]["E"].value
                             / true["E"] - 1)
                    idnt.fit_model(preprocessing=list(pre2))
                    fp = idnt.fit_properties
                    pf = fp["params_fitted"]
                    e2 = abs(pf["E"].value / true["E"] - 1)
                    used = {g_: float(pf[g_].value) for g_ in geo}
                why = None
                if e1 > 1e-5:
                    run.count("pipeline-change-control-not-recovered(logged)")
                elif not fp.get("success"):
                    why = "the refit reports success False"
                elif used != {g_: float(v_) for g_, v_ in geo.items()}:
                    why = (f"the refit used the geometry {used}, the user "
                           f"gave {geo} (modulus error {e2:.2e})")
                elif e2 > 1e-5:
                    why = f"the refit reports a modulus error of {e2:.2e}"
            except BaseException as e:
                why = f"raised {type(e).__name__}: {e}"
            if why:
                run.failing(SITE, key, f"{mk}, {cname}: {why}",
                            payload={"kind": "rerun"},
                            theorem="C01 (recovery; not a theorem)")


def relative_window_cases(run):
    """contact-point-relative intervals that reach only a little into the
    baseline, with an initial contact point off by 2.5 % of the approach
    range (inside the stated basin) towards either side: the first estimate
    of the contact point comes from the whole segment, so the generating
    parameters are recovered"""
    from nanite import model
    for mk in ("hertz_para", "hertz_cone", "sneddon_spher_approx"):
        for cp, off, rx in ((3e-7, 2e-7, [-1.5e-6, 1e-7]),
                            (-2e-7, 2e-7, [-1e-6, 1.5e-7]),
                            (3e-7, -2e-7, [-1.5e-6, 1e-7]),
                            (1e-6, 2e-7, [-2e-6, 5e-8]),
                            # shallow analysis: only the first 150 nm of the
                            # indentation (the initial contact point lies
                            # farther out in the baseline than that)
                            (3e-7, 2e-7, [-1.5e-7, 2e-6]),
                            (-2e-7, 2.2e-7, [-1e-7, 1e-6])):
            for seg in (0, 1):
                true = fits.default_params(mk, E=5000.0, contact_point=cp,
                                           baseline=1e-11)
                cols = fits.model_curve(mk, true, n_app=400, n_ret=200)
                span = float(np.ptp(cols["tip position"]))
                cfg = {"relative-window": mk, "contact_point": cp,
                       "initial offset": off, "range_x": rx, "segment": seg}
                key = "relative-window:" + common.sha(cfg)[:16]
                run.case(cfg, kind="relative-window")
                try:
                    idnt = curves.make_indentation(cols)
                    p = model.models_available[mk].get_parameter_defaults()
                    p["E"].set(value=3000.0)
                    p["contact_point"].set(value=cp + off)
                    with warnings.catch_warnings():
                        warnings.simplefilter("ignore")
                        idnt.fit_model(model_key=mk, params_initial=p,
                                       segment=seg, weight_cp=0,
                                       range_type="relative cp",
                                       range_x=list(rx))
                    fp = idnt.fit_properties
                    why = None
                    if not fp.get("success"):
                        why = "fit reports success False"
                    else:
                        pf = fp["params_fitted"]
                        eE = abs(pf["E"].value / true["E"] - 1)
                        ec = abs(pf["contact_point"].value - cp) / span
                        if eE > 1e-5 or ec > 1e-6:
                            why = (f"recovered E {pf['E'].value!r} (error "
                                   f"{eE:.2e}), contact point error "
                                   f"{ec:.2e} of the range")
                except BaseException as e:
                    why = f"raised {type(e).__name__}: {e}"
                if why:
                    run.failing(SITE, key, f"{cfg}: {why}",
                                payload={"kind": "rerun"},
                                theorem="C01 (recovery; not a theorem)")


def absolute_window_cases(run):
    """absolute intervals that lie inside the indentation branch only (the
    generating contact point is outside the fitted points): modulus, contact
    point and baseline are still determined by the data (C01_identifiable_*),
    and the default minimiser recovers them from a start inside the basin"""
    from nanite import model
    for mk in ("hertz_para", "hertz_cone"):
        for cp, rx in ((3e-7, [-3.1e-6, -2e-7]), (3e-7, [-2.5e-6, 0.0]),
                       (-2e-7, [-3e-6, -6e-7])):
            for seg in (0, 1):
                true = fits.default_params(mk, E=2500.0, contact_point=cp,
                                           baseline=2e-10)
                cols = fits.model_curve(mk, true, n_app=400, n_ret=200)
                span = float(np.ptp(cols["tip position"]))
                cfg = {"absolute-window": mk, "contact_point": cp,
                       "range_x": rx, "segment": seg}
                key = "absolute-window:" + common.sha(cfg)[:16]
                run.case(cfg, kind="absolute-window")
                try:
                    idnt = curves.make_indentation(cols)
                    p = model.models_available[mk].get_parameter_defaults()
                    p["E"].set(value=3200.0)
                    p["contact_point"].set(value=cp + 0.025 * span)
                    with warnings.catch_warnings():
                        warnings.simplefilter("ignore")
                        idnt.fit_model(model_key=mk, params_initial=p,
                                       segment=seg, weight_cp=0,
                                       range_type="absolute",
                                       range_x=list(rx))
                    fp = idnt.fit_properties
                    why = None
                    if not fp.get("success"):
                        why = "fit reports success False"
                    else:
                        pf = fp["params_fitted"]
                        eE = abs(pf["E"].value / true["E"] - 1)
                        ec = abs(pf["contact_point"].value - cp) / span
                        eb = abs(pf["baseline"].value - 2e-10) / float(
                            np.ptp(cols["force"]))
                        if eE > 1e-4 or ec > 1e-5 or eb > 1e-5:
                            why = (f"recovered E {pf['E'].value!r} (error "
                                   f"{eE:.2e}), contact point error "
                                   f"{ec:.2e} of the range, baseline error "
                                   f"{eb:.2e} of the force range")
                except BaseException as e:
                    why = f"raised {type(e).__name__}: {e}"
                if why:
                    run.failing(SITE, key, f"{cfg}: {why}",
                                payload={"kind": "rerun"},
                                theorem="C01 (recovery; not a theorem)")


def independent_truth_cases(run):
    """ground truth that does not come from the library: curves computed
    from the published closed forms (extended precision, the oracle of C02)
    with a non-zero baseline; fitting the shipped model recovers the
    generating parameters"""
    from nanite import model
    from . import c02
    for mk in ("hertz_para", "hertz_cone", "hertz_pyr3s",
               "sneddon_spher_approx", "power_layer_clifford_2009"):
        ekey = "E_S" if mk.startswith("power_layer") else "E"
        for E, blf, seg in ((4000.0, 0.05, 0), (300.0, -0.08, 1),
                            (30000.0, 0.02, 0)):
            over = {ekey: E, "contact_point": 2.5e-7, "baseline": 0.0}
            if "R" in fits.default_params(mk):
                over["R"] = 5e-6
            true = fits.default_params(mk, **over)
            x = np.concatenate([np.linspace(4e-6, -1.6e-6, 300),
                                np.linspace(-1.6e-6, 4e-6, 151)[1:]])
            f0 = np.array([float(c02.spec_value(mk, true, xi)) for xi in x])
            true["baseline"] = blf * float(np.max(f0))
            f = np.array([float(c02.spec_value(mk, true, xi)) for xi in x])
            cols = {"force": f, "height (measured)": x - f / .05,
                    "height (piezo)": x - f / .05,
                    "segment": np.concatenate([np.zeros(300, np.uint8),
                                               np.ones(150, np.uint8)]),
                    "time": np.arange(x.size) * 1e-3, "tip position": x}
            fmax = float(np.max(np.abs(f - true["baseline"])))
            span = float(np.ptp(x))
            cfg = {"independent-truth": mk, ekey: E,
                   "baseline/Fmax": blf, "segment": seg}
            key = "independent-truth:" + common.sha(cfg)[:16]
            run.case(cfg, kind="independent-truth")
            try:
                idnt = curves.make_indentation(cols)
                p = model.models_available[mk].get_parameter_defaults()
                for n_ in p:
                    if n_ in true and n_ not in (ekey, "contact_point",
                                                 "baseline"):
                        p[n_].set(value=true[n_])
                if mk.startswith("power_layer"):
                    p["E_L"].set(vary=False)
                    p["t"].set(vary=False)
                p[ekey].set(value=E * 1.5)
                p["contact_point"].set(value=3e-7)
                p["baseline"].set(value=true["baseline"] * 0.9)
                with warnings.catch_warnings():
                    warnings.simplefilter("ignore")
                    idnt.fit_model(model_key=mk, params_initial=p,
                                   segment=seg, weight_cp=0)
                fp = idnt.fit_properties
                why = None
                if not fp.get("success"):
                    why = "fit reports success False"
                else:
                    pf = fp["params_fitted"]
                    eE = abs(pf[ekey].value / E - 1)
                    ec = abs(pf["contact_point"].value - 2.5e-7) / span
                    eb = abs(pf["baseline"].value - true["baseline"]) / fmax
                    sg = np.asarray(idnt["segment"]) == seg
                    dv = float(np.max(np.abs(np.asarray(idnt["fit"])[sg]
                                             - f[sg]))) / fmax
                    if max(eE, ec, eb, dv) > 2e-6:
                        why = (f"errors: modulus {eE:.2e}, contact point "
                               f"{ec:.2e}, baseline {eb:.2e}, curve "
                               f"{dv:.2e} (relative)")
            except BaseException as e:
                why = f"raised {type(e).__name__}: {e}"
            if why:
                run.failing(SITE, key, f"{cfg}: data from the published "
                            f"closed form: {why}", payload={"kind": "rerun"},
                            theorem="C01 (recovery; not a theorem)")


GUESS_HEAD = """From Coq Require Import List String QArith Bool.
From NV Require Import Model.Guess.
Import ListNotations.
Local Open Scope string_scope.
Definition oq_eqb (a b : option Q) : bool :=
  match a, b with Some x, Some y => Qeq_bool x y | None, None => true | _, _ => false end.
Definition param_eqb (a b : param) : bool :=
  String.eqb (p_name a) (p_name b) && Qeq_bool (p_value a) (p_value b) &&
  Bool.eqb (p_vary a) (p_vary b) && oq_eqb (p_min a) (p_min b) && oq_eqb (p_max a) (p_max b).
Fixpoint params_eqb (a b : list param) : bool :=
  match a, b with
  | [], [] => true
  | x :: s, y :: t => param_eqb x y && params_eqb s t
  | _, _ => false
  end.
"""


def _q(v):
    from fractions import Fraction
    fr = Fraction(float(v))
    return f"({fr.numerator} # {fr.denominator})"


def _oq(v):
    return "None" if not math.isfinite(float(v)) else f"(Some {_q(v)})"


def _coq_params(ps):
    return "[" + "; ".join(
        "{| p_name := " + common.coq_string(n_) + f"; p_value := {_q(p_.value)}"
        f"; p_vary := {'true' if p_.vary else 'false'}; p_min := {_oq(p_.min)}"
        f"; p_max := {_oq(p_.max)} |}}" for n_, p_ in ps.items()) + "]"


def guess_model_cases(run):
    """guess_initial_parameters against its Coq model (Model/Guess.v): the
    model's defaults, the contact point from the curve, the non-NaN
    ancillaries that name a parameter -- each clipped to the bounds --, for
    every shipped model and for harness models with ancillaries / bounds,
    on curves with and without a tip position column"""
    import types
    import lmfit
    from nanite import model
    from nanite.fit import guess_initial_parameters
    from . import c18

    def bounded(key):
        m = c18.base_module(key, anc=True)

        def get_parameter_defaults():
            p = lmfit.Parameters()
            p.add("E", value=500.0, min=0, max=1000.0)
            p.add("R", value=1e-5, vary=False)
            p.add("contact_point", value=0.0, min=-1e-7, max=1e-7)
            p.add("baseline", value=0.0)
            return p
        m.get_parameter_defaults = get_parameter_defaults
        m.compute_ancillaries = lambda fd: {
            "E": 1234.0, "R": float("nan"), "other": 5.0,
            "baseline": -2e-10}
        m.parameter_anc_keys = ["E", "R", "other", "baseline"]
        m.parameter_anc_names = ["anc E", "anc R", "anc other", "anc bl"]
        m.parameter_anc_units = ["Pa", "m", "", "N"]
        return m
    extra = [c18.base_module("nv_guess_anc", anc=True), bounded("nv_guess_b")]
    registered = []
    exprs, descr = [], []
    try:
        for m_ in extra:
            model.register_model(m_)
            registered.append(m_.model_key)
        keys = [k_ for k_ in sorted(model.models_available)
                if k_ in registered or (getattr(getattr(
                    model.models_available[k_], "module", None), "__file__",
                    "") or "").startswith(str(common.REPO))]
        cols = fits.model_curve("hertz_para", fits.default_params(
            "hertz_para", E=3000.0, contact_point=2e-7), n_app=150, n_ret=60)
        states = {}
        a = curves.make_indentation(cols)
        a.apply_preprocessing(["compute_tip_position", "correct_force_offset",
                               "correct_tip_offset"])
        states["tip-offset-corrected"] = a
        b = curves.make_indentation(cols)
        b.apply_preprocessing(["compute_tip_position"])
        states["tip-position-only"] = b
        c = curves.make_indentation({k_: v_ for k_, v_ in cols.items()
                                     if k_ != "tip position"})
        states["no-tip-position"] = c
        for mk in keys:
            md = model.models_available[mk]
            for sname, idnt in states.items():
                for ca in (True, False):
                    for ma in (True, False):
                        cfg = {"guess": mk, "curve": sname,
                               "common_ancillaries": ca,
                               "model_ancillaries": ma}
                        run.case(cfg, kind="guess-model")
                        try:
                            with warnings.catch_warnings():
                                warnings.simplefilter("ignore")
                                got = guess_initial_parameters(
                                    idnt, model_key=mk, common_ancillaries=ca,
                                    model_ancillaries=ma)
                                cp = "None"
                                if ca and "tip position" in idnt:
                                    ix = idnt.estimate_contact_point_index()
                                    cp = "(Some " + _q(np.asarray(
                                        idnt["tip position"])[ix]) + ")"
                                anc = []
                                if ma:
                                    for k_, v_ in idnt.get_ancillary_parameters(
                                            model_key=mk).items():
                                        anc.append(
                                            f"({common.coq_string(k_)}, "
                                            + ("None" if np.isnan(v_) else
                                               f"Some {_q(v_)}") + ")")
                            dfl = md.get_parameter_defaults()
                        except BaseException as e:
                            run.failing(SITE, "guess:" + common.sha(cfg)[:12],
                                        f"{cfg}: raised {type(e).__name__}: "
                                        f"{e}", payload={"kind": "rerun"})
                            continue
                        exprs.append(
                            f"params_eqb (guess {_coq_params(dfl)} {cp} "
                            f"[{'; '.join(anc)}]) {_coq_params(got)}")
                        descr.append(str(cfg))
    finally:
        for k_ in registered:
            if k_ in model.models_available:
                model.deregister_model(model.models_available[k_])
    fits.eval_bool_cases(run, "c01_guess", exprs, descr, head=GUESS_HEAD,
                         chunk=30)


def default_guess_sequences(run):
    """the documented workflow 'get the initial parameters, edit them, fit',
    followed by a fit with the library's own initial guess
    (params_initial=None) on the same curve, approach and retract: the second
    fit must start from the library's guess again -- not from what the caller
    did to the object it was given -- and recover the generating parameters"""
    for mk in ["hertz_para", "hertz_cone", "hertz_pyr3s"]:
        true = fits.default_params(mk, E=5000.0, contact_point=3e-7,
                                   baseline=2e-10)
        cols = fits.model_curve(mk, true, n_app=300, n_ret=100)
        fmax = float(np.max(np.abs(cols["force"])))
        span = float(np.ptp(cols["tip position"]))

        def recovered(idnt, seg_id):
            fp = idnt.fit_properties
            if not fp.get("success"):
                return "fit reports success False"
            pf = fp["params_fitted"]
            eE = abs(pf["E"].value / true["E"] - 1)
            ec = abs(pf["contact_point"].value - true["contact_point"]) / span
            eb = abs(pf["baseline"].value - true["baseline"]) / fmax
            bad = [n for n in pf if n in true and n not in (
                "E", "contact_point", "baseline")
                and pf[n].value != true[n]]
            if bad:
                return (f"geometry parameters {bad} are not the model's "
                        "defaults")
            if max(eE, ec, eb) > 1e-5:
                return (f"E error {eE:.2e}, cp {ec:.2e}, baseline {eb:.2e}")
            return None
        sibling = {"hertz_para": "sneddon_spher_approx",
                   "hertz_cone": "hertz_pyr3s",
                   "hertz_pyr3s": "hertz_cone"}[mk]
        for variant in ("control", "edited-guess-first",
                        "other-model-first"):
            idnt = curves.make_indentation(cols)
            key = f"default-guess:{mk}:{variant}"
            run.case({"default-guess": variant, "model": mk}, kind="refit")
            try:
                with warnings.catch_warnings():
                    warnings.simplefilter("ignore")
                    if variant == "other-model-first":
                        # a model with the same parameter names fitted first
                        # (its own geometry defaults, edited): the switch
                        # starts from the new model's defaults
                        p = idnt.get_initial_fit_parameters(model_key=sibling)
                        geo = [n for n in p if n not in (
                            "E", "contact_point", "baseline", "nu")]
                        if geo:
                            p[geo[0]].set(value=float(p[geo[0]].value) * 0.6)
                        idnt.fit_model(model_key=sibling, params_initial=p,
                                       segment="approach")
                        idnt.fit_model(model_key=mk, segment="approach")
                        why = recovered(idnt, 0)
                        if why:
                            why = "after the switch from " + sibling + ": " \
                                + why
                            raise AssertionError(why)
                    elif variant != "control":
                        p = idnt.get_initial_fit_parameters(model_key=mk)
                        geo = [n for n in p if n not in (
                            "E", "contact_point", "baseline", "nu")]
                        if geo:
                            p[geo[0]].set(value=float(p[geo[0]].value) * 1.4)
                        p["baseline"].set(value=0, vary=False)
                        idnt.fit_model(model_key=mk, params_initial=p,
                                       segment="approach")
                    idnt.fit_model(model_key=mk, params_initial=None,
                                   segment="approach")
                    why = recovered(idnt, 0)
                    if why is None:
                        idnt.fit_model(model_key=mk, params_initial=None,
                                       segment="retract")
                        why = recovered(idnt, 1)
                        if why:
                            why = "retract: " + why
            except AssertionError as e:
                why = str(e)
            except BaseException as e:
                why = f"raised {type(e).__name__}: {e}"
            if why and variant == "control":
                run.count("default-guess-control-not-recovered(logged)")
                break       # the library's own guess is outside the basin
            if why:
                run.failing(SITE, key, f"{mk}: a fit with the library's "
                            "initial guess after an exploratory fit with an "
                            f"edited copy of that guess: {why}",
                            payload={"kind": "rerun"},
                            theorem="C01 (recovery; not a theorem)")


def geometry_relative_cases(run):
    """geometry gcf_k != 1 with a contact-point-relative fitting interval on
    curves whose contact point is far from zero (no tip-offset correction):
    the interval follows the contact point in measured units"""
    from nanite import model
    for t, (mk, k, cp) in enumerate([("hertz_para", 2.0, 4e-6),
                                     ("hertz_cone", 0.5, 4e-6),
                                     ("hertz_para", 1.6, 3.5e-6)]):
        true = fits.default_params(mk, E=4000.0, contact_point=cp,
                                   baseline=1e-11)
        gcfg = {"geometry-relative": mk, "gcf_k": k, "contact_point": cp}
        key = f"gcf-relative:{mk}:{k}"
        run.case(gcfg, kind="geometry-relative")
        try:
            md = model.models_available[mk]
            cols = fits.model_curve(mk, true, n_app=300, n_ret=120)
            x = np.asarray(cols["tip position"], float)
            vals = md.get_parameter_defaults()
            for name in vals:
                if name in true:
                    vals[name].set(value=true[name])
            vd = vals.valuesdict()
            vd["contact_point"] = cp * k
            cols["force"] = md.module.model_func(x * k, **vd)
            cols["height (measured)"] = x - cols["force"] / .05
            fmax = float(np.max(np.abs(cols["force"])))
            span = float(np.ptp(x))
            idnt = curves.make_indentation(cols)
            p = md.get_parameter_defaults()
            p["E"].set(value=true["E"] * 1.3)
            p["contact_point"].set(value=cp * 1.02)
            with warnings.catch_warnings():
                warnings.simplefilter("ignore")
                idnt.fit_model(model_key=mk, params_initial=p, segment=0,
                               gcf_k=k, weight_cp=0, method="leastsq",
                               range_type="relative cp",
                               range_x=[-1.5e-6, 1e-6])
            fp = idnt.fit_properties
            why = None
            if not fp.get("success"):
                why = "fit reports success False"
            else:
                pf = fp["params_fitted"]
                eE = abs(pf["E"].value / true["E"] - 1)
                ec = abs(pf["contact_point"].value - cp) / span
                rng_ = np.asarray(idnt["fit range"]).astype(bool)
                lo, hi = float(x[rng_].min()), float(x[rng_].max())
                if eE > 1e-5 or ec > 1e-6:
                    why = f"recovered E {eE:.2e}, cp {ec:.2e}"
                elif not (cp - 1.6e-6 <= lo <= cp - 1.4e-6
                          and cp + 0.9e-6 <= hi <= cp + 1.1e-6):
                    why = (f"fitted interval [{lo}, {hi}] is not "
                           f"[cp - 1.5 um, cp + 1 um] around cp = {cp}")
        except BaseException as e:
            why = f"raised {type(e).__name__}: {e}"
        if why:
            run.failing(SITE, key, f"{gcfg}: {why}", payload={"kind": "rerun"},
                        theorem="C01 (recovery; not a theorem)")


def process_state_cases(run):
    """what another curve did earlier in the process does not matter: after a
    modulus-plateau search (and an E(delta) scan) on one curve, a FRESH curve
    fitted with default minimiser options -- here the slow Nelder-Mead -- is
    recovered, and its stored minimiser options are the defaults"""
    mk = "hertz_para"
    true = fits.default_params(mk, E=50000.0, contact_point=-1.5e-7,
                               baseline=-3e-11)
    cols = fits.model_curve(mk, true, n_app=300, n_ret=100)
    fmax = float(np.max(np.abs(cols["force"])))
    span = float(np.ptp(cols["tip position"]))

    def nelder(tag):
        run.case({"process-state": tag}, kind="process-state")
        idnt = curves.make_indentation(cols)
        try:
            with warnings.catch_warnings():
                warnings.simplefilter("ignore")
                idnt.fit_model(model_key=mk, method="nelder")
            fp = idnt.fit_properties
            pf = fp["params_fitted"]
            err = max(abs(pf["E"].value / true["E"] - 1),
                      abs(pf["contact_point"].value
                          - true["contact_point"]) / span,
                      abs(pf["baseline"].value - true["baseline"]) / fmax)
            return err, dict(fp.get("method_kws") or {})
        except BaseException as e:
            return f"{type(e).__name__}: {e}", None
    e0, kws0 = nelder("before")
    other = curves.make_indentation(fits.model_curve(
        mk, fits.default_params(mk, E=3000.0, contact_point=1e-7),
        n_app=200, n_ret=80))
    try:
        with warnings.catch_warnings():
            warnings.simplefilter("ignore")
            other.fit_model(model_key=mk, optimal_fit_edelta=True,
                            optimal_fit_num_samples=10, range_x=[0, 2e-6])
            other.compute_emodulus_mindelta()
    except BaseException as e:
        run.count("process-state-search-raised:" + type(e).__name__)
    e1, kws1 = nelder("after-plateau-search-elsewhere")
    if isinstance(e0, str) or e0 > TOL["nelder"][0]:
        run.count("process-state-control-not-recovered(logged)")
        return
    why = None
    if isinstance(e1, str):
        why = "raised " + e1
    elif e1 > TOL["nelder"][0]:
        why = (f"recovery error {e1:.2e} (before the search elsewhere: "
               f"{e0:.2e})")
    elif kws1 != kws0:
        why = (f"its stored method_kws are {kws1}, nobody passed any (before "
               f"the search elsewhere: {kws0})")
    if why:
        run.failing(SITE, "process-state:nelder-after-search",
                    "a fresh curve fitted with default Nelder-Mead options "
                    "after a modulus-plateau search on another curve: " + why,
                    payload={"kind": "rerun"},
                    theorem="C01 (recovery; not a theorem)")


def geometry_cases(run):
    """exact curves for a measurement geometry with gcf_k != 1 (the model
    sees gcf_k times the measured indentation), the contact point limited by
    the user to an interval that holds the true contact point in measured
    and in corrected units: E, contact point (measured units, inside the
    user's limits) and baseline must be recovered"""
    from nanite import model
    n = 10 if run.tier == "quick" else 120
    for i in range(n):
        cfg = one_case(run.rng, i, run.tier)
        mk, true = cfg["model"], dict(cfg["true"])
        k = [0.5, 2.0, 0.7, 1.0][i % 4]
        cp = true["contact_point"]
        if abs(cp) < 2e-7:
            cp = 3e-7 if i % 2 else -3e-7
        true["contact_point"] = cp
        limited = i % 3 != 2
        lo = min(cp, k * cp) - 0.1 * abs(cp)
        hi = max(cp, k * cp) + 0.1 * abs(cp)
        gcfg = {"geometry-case": i, "model": mk, "gcf_k": k,
                "limits": [lo, hi] if limited else None, "true": true,
                "n_app": cfg["n_app"]}
        key = "gcf:" + common.sha(gcfg)[:16]
        run.case(gcfg, kind=f"geometry-{mk}")
        ekey = "E_S" if mk.startswith("power_layer") else "E"
        try:
            md = model.models_available[mk]
            cols = fits.model_curve(mk, true, n_app=cfg["n_app"],
                                    n_ret=cfg["n_app"] // 2)
            x = np.asarray(cols["tip position"], float)
            vals = md.get_parameter_defaults()
            for name in vals:
                if name in true:
                    vals[name].set(value=true[name])
            vd = vals.valuesdict()
            vd["contact_point"] = cp * k
            vd["baseline"] = 0.0
            cols["force"] = md.module.model_func(x * k, **vd)
            cols["height (measured)"] = x - cols["force"] / .05
            fmax = float(np.max(np.abs(cols["force"])))
            span = float(np.ptp(x))
            idnt = curves.make_indentation(cols)
            p = md.get_parameter_defaults()
            for name in p:
                if name in true and name not in (ekey, "contact_point",
                                                 "baseline"):
                    p[name].set(value=true[name])
            if mk.startswith("power_layer"):
                p["E_L"].set(vary=False)
                p["t"].set(vary=False)
            p[ekey].set(value=true[ekey] * 1.3)
            p["contact_point"].set(value=cp + 0.02 * abs(cp))
            if limited:
                p["contact_point"].set(min=lo, max=hi)
            with warnings.catch_warnings():
                warnings.simplefilter("ignore")
                idnt.fit_model(model_key=mk, params_initial=p, segment=0,
                               gcf_k=k, weight_cp=0, range_x=[0, 0],
                               method="leastsq")
            fp = idnt.fit_properties
            if not fp.get("success"):
                why = "fit reports success False"
            else:
                pf = fp["params_fitted"]
                eE = abs(pf[ekey].value / true[ekey] - 1)
                ec = abs(pf["contact_point"].value - cp) / span
                eb = abs(pf["baseline"].value) / fmax
                te, tc, tb = TOL["leastsq"]
                why = None
                if eE > te or ec > tc or eb > tb:
                    why = (f"recovered E {eE:.2e}, cp {ec:.2e} (reported "
                           f"{pf['contact_point'].value!r}, true {cp!r}), "
                           f"baseline {eb:.2e} exceed {TOL['leastsq']}")
        except BaseException as e:
            why = f"raised {type(e).__name__}: {e}"
        if why:
            run.failing(SITE, key, f"{gcfg}: {why}",
                        payload={"kind": "rerun"}, observed=why,
                        theorem="C01 (recovery; not a theorem)")


def check(run):
    run.sources = common.source_digests(["src/nanite/fit.py",
                                         "src/nanite/indent.py",
                                         "src/nanite/model/residuals.py"])
    try:
        gen_all.generate_all()
        models, trw = gen_formulas.translate_all()
        worst = gen_formulas.self_check(models, trw, n=100, seed=run.seed)
        run.obligation("translator-self-check",
                       all(v <= 64 for v in worst.values()), str(worst))
    except gen_formulas.TranslationError as e:
        run.obligation("translation", False, str(e))
    common.prove(run, "C01")
    run.trusted = [
        "Coq 8.16.1 kernel; Reals axioms",
        "tools/nv/gen_formulas.py (model bodies and weights translated)",
    ]
    run.assumptions = [
        "PARTIAL: convergence of MINPACK / Nelder-Mead from the stated basin "
        "and the noise-proportional tolerance are runtime behaviour of "
        "third-party numerical code: explored by the recovery sweep with a "
        "frozen basin and frozen tolerances, not proved",
        "uniqueness of the exact fit: from four abscissae for the power "
        "laws, from the whole curve (every abscissa) for the sphere series "
        "and the layered model",
    ]
    run.extra["basin"] = BASIN
    run.extra["tolerances(E,cp/span,bl/Fmax)"] = TOL
    n = 150 if run.tier == "quick" else 1500
    logged = 0
    for i in range(n):
        cfg = one_case(run.rng, i, run.tier)
        key = "cfg:" + common.sha(cfg)[:16]
        try:
            idnt, true, cols, fmax, span, sigma = run_case(cfg, run.rng)
        except BaseException as e:
            run.failing(SITE, key, f"{cfg}: raised {type(e).__name__}: {e}",
                        payload={"kind": "cfg", "cfg": cfg})
            continue
        run.case(cfg, kind=f"{cfg['model']}-{cfg['method']}-"
                 f"{'noisy' if sigma else 'exact'}")
        fp = idnt.fit_properties
        ekey = "E_S" if cfg["model"].startswith("power_layer") else "E"

        def fail(why):
            if cfg["method"] == "least_squares":
                # scipy's trust-region solver is not part of the stated
                # claim (it stalls on these badly scaled problems even with
                # tightened tolerances): logged only
                run.count("least_squares-not-recovered(logged)")
                return
            run.failing(SITE, key, f"{cfg}: {why}",
                        payload={"kind": "cfg", "cfg": cfg}, observed=why,
                        theorem="C01 (recovery; not a theorem)")
        if not fp.get("success"):
            fail("fit reports success False")
            continue
        pf = fp["params_fitted"]
        te, tc, tb = TOL[cfg["method"]]
        eE = abs(pf[ekey].value / true[ekey] - 1)
        ec = abs(pf["contact_point"].value - true["contact_point"]) / span
        eb = abs(pf["baseline"].value - true["baseline"]) / fmax
        if sigma:
            lim = NOISE_C * sigma / fmax
            if eE > lim or ec > lim or eb > lim:
                fail(f"noisy fit (sigma/Fmax = {sigma / fmax:.1e}): errors "
                     f"E {eE:.2e}, cp {ec:.2e}, bl {eb:.2e} exceed "
                     f"{NOISE_C} sigma/Fmax")
            continue
        if eE > te or ec > tc or eb > tb:
            fail(f"recovered E {eE:.2e}, cp {ec:.2e}, baseline {eb:.2e} "
                 f"(relative) exceed {TOL[cfg['method']]}")
            continue
        seg = np.asarray(idnt["segment"] == cfg["segment"])
        d = np.max(np.abs(np.asarray(idnt["fit"])[seg]
                          - np.asarray(idnt["force"])[seg])) / fmax
        if d > 10 * te:
            fail(f"fitted curve deviates from the data by {d:.2e} Fmax on "
                 "the fitted segment")
    refit_sequences(run)
    default_guess_sequences(run)
    pipeline_change_sequences(run)
    relative_window_cases(run)
    absolute_window_cases(run)
    independent_truth_cases(run)
    guess_model_cases(run)
    geometry_cases(run)
    geometry_relative_cases(run)
    process_state_cases(run)
    run.rule = ("ground truth from the implementation's own model functions: "
                "5 models x parameters in bounds (E over 3.5 decades) x 50-"
                "2000 points, uniform/jittered sampling x approach/retract x "
                "weighting width x leastsq/least_squares/nelder x noise; "
                "initial guess drawn inside the stated basin; distinct by "
                "config")


def replay(rec):
    pl = rec.get("payload") or {}

    class R:
        bad = False

        def failing(self, *a, **k):
            R.bad = True
            return True

        def case(self, *a, **k):
            pass

        def count(self, *a, **k):
            pass
    if pl.get("kind") == "refit":
        refit_sequences(R())
        return not R.bad
    return common.replay_by_rerun(sys.modules[__name__], rec)
