"""C13 -- every registered model obeys the structural contract."""
import math
import types
import warnings

import sys

import numpy as np

from .. import common, gen_all, gen_formulas, fits
from ..common import coq_float

SITE = "nanite.model.residuals.model_direction_agnostic"
SITE_M = "nanite.model (registered model)"


def make_module(key, func, with_anc=False, expr=False):
    import lmfit
    m = types.ModuleType("nv_model_" + key)

    def get_parameter_defaults():
        p = lmfit.Parameters()
        p.add("E", value=3e3, min=0)
        p.add("contact_point", value=0)
        p.add("baseline", value=0)
        if expr:
            p.add("E2", expr="2*E")
        return p
    m.get_parameter_defaults = get_parameter_defaults
    m.model_doc = "harness model " + key
    m.model_func = func
    m.model_key = key
    m.model_name = "harness " + key
    m.parameter_keys = ["E", "contact_point", "baseline"] + (
        ["E2"] if expr else [])
    m.parameter_names = ["Modulus", "Contact Point", "Baseline"] + (
        ["Twice"] if expr else [])
    m.parameter_units = ["Pa", "m", "N"] + (["Pa"] if expr else [])
    m.valid_axes_x = ["tip position"]
    m.valid_axes_y = ["force"]
    if with_anc:
        m.compute_ancillaries = lambda fd: {"E": 1234.0}
        m.parameter_anc_keys = ["E"]
        m.parameter_anc_names = ["anc modulus"]
        m.parameter_anc_units = ["Pa"]
    return m


SEEN = []


def f_index_weighted(delta, E, contact_point=0, baseline=0, E2=None):
    """deliberately order-sensitive: position i multiplies the value"""
    SEEN.append(np.array(delta, copy=True))
    return np.arange(delta.size) * (contact_point - delta) * E + baseline


def f_requires_descending(delta, E, contact_point=0, baseline=0):
    SEEN.append(np.array(delta, copy=True))
    assert delta[0] >= delta[-1], "model saw ascending data"
    root = contact_point - delta
    out = np.zeros_like(delta)
    out[root > 0] = E * root[root > 0] ** 2
    return out + baseline


WRAP_HEAD = """From Coq Require Import List PrimFloat.
From NV Require Import Model.Wrapper Model.FitCore Model.FitCoreF.
Import ListNotations.
Definition fidx (e cp bl : float) (l : list float) : list float :=
  map (fun p => (f_of_nat (fst p) * (cp - snd p) * e + bl)%float)
      (combine (seq 0 (length l)) l).
"""


def check_wrapper(run):
    from nanite import model
    mods = [make_module("nv_idx", f_index_weighted),
            make_module("nv_idx_expr", f_index_weighted, expr=True),
            make_module("nv_desc", f_requires_descending, with_anc=True)]
    regs = [model.register_model(m) for m in mods]
    exprs, descr = [], []
    try:
        n = 60 if run.tier == "quick" else 800
        for i in range(n):
            md = regs[i % 3]
            size = run.rng.choice([1, 2, 3, 5, 8, 13])
            kind = run.rng.choice(["asc", "desc", "mixed", "const"])
            x = np.array([run.rng.uniform(-1e-6, 1e-6) for _ in range(size)])
            if kind == "asc":
                x = np.sort(x)
            elif kind == "desc":
                x = np.sort(x)[::-1].copy()
            elif kind == "const":
                x[:] = x[0]
            p = md.get_parameter_defaults()
            p["E"].set(value=run.rng.choice([1.0, 2.5, 3000.0]))
            p["contact_point"].set(value=run.rng.uniform(-5e-7, 5e-7))
            p["baseline"].set(value=run.rng.choice([0.0, 1e-10]))
            before = x.copy()
            SEEN.clear()
            cfg = {"model": md.model_key, "orientation": kind, "x": x.tolist()}
            key = "wrap:" + common.sha(cfg)[:16]
            try:
                out = md.model(p, x)
            except BaseException as e:
                run.failing(SITE, key, f"{cfg}: model wrapper raised "
                            f"{type(e).__name__}: {e}",
                            payload={"kind": "wrap", "cfg": cfg},
                            theorem="C13_wrapper_model_sees_descending")
                continue
            run.case(cfg, nontrivial=size >= 2, kind="wrap-" + kind)
            why = None
            seen = SEEN[-1] if SEEN else None
            if out.shape != x.shape:
                why = "output shape differs from the abscissa"
            elif not np.array_equal(x, before):
                why = "abscissa modified"
            elif seen is None or (seen[0] < seen[-1]):
                why = "model function saw ascending data"
            else:
                asc = x[0] < x[-1]
                inner = md.module.model_func(
                    (x[::-1] if asc else x).copy(), **p.valuesdict())
                want = inner[::-1] if asc else inner
                if out.tobytes() != np.asarray(want).tobytes():
                    why = "output is not in the order of the abscissa"
            if why:
                run.failing(SITE, key, f"{cfg}: {why}",
                            payload={"kind": "wrap", "cfg": cfg},
                            theorem="C13_wrapper_calls_on_seen")
            # default residual
            y = np.array([run.rng.uniform(-1e-9, 1e-9) for _ in range(size)])
            y0 = y.copy()
            for wd in (0, 5e-7):
                try:
                    r = md.residual(p, x, y, wd)
                except BaseException as e:
                    run.failing(SITE, key + f":res{wd}", f"{cfg}: default "
                                f"residual wrapper raised {type(e).__name__}:"
                                f" {e} (the model function must only ever see"
                                " non-ascending data)",
                                payload={"kind": "wrap", "cfg": cfg},
                                theorem="C13_default_residual")
                    continue
                from nanite.model.residuals import \
                    compute_contact_point_weights as cw
                want = y - md.model(p, x)
                if wd:
                    want = want * cw(p["contact_point"].value, x, wd)
                if r.tobytes() != want.tobytes() or not np.array_equal(y, y0):
                    run.failing(SITE, key + f":res{wd}", f"{cfg}: default "
                                "residual is not (data - model) * weights "
                                "or modified its input",
                                payload={"kind": "wrap", "cfg": cfg},
                                theorem="C13_default_residual")
            if md.model_key.startswith("nv_idx") and size >= 1:
                pv = p.valuesdict()
                exprs.append(
                    "match wrap float PrimFloat.ltb (fidx "
                    f"{coq_float(pv['E'])} {coq_float(pv['contact_point'])} "
                    f"{coq_float(pv['baseline'])}) {fits.flist(x)} with "
                    f"Some o => (fix same (a b : list float) := match a, b "
                    f"with [], [] => true | u :: s, v :: t => f_same u v && "
                    f"same s t | _, _ => false end) o {fits.flist(out)} "
                    "| None => false end")
                descr.append(str(cfg))
    finally:
        for md in regs:
            model.deregister_model(md)
    from concurrent.futures import ThreadPoolExecutor
    text_bad = []
    chunk = 60
    for c0 in range(0, len(exprs), chunk):
        body = ";\n".join("(" + e + ")%bool" for e in exprs[c0:c0 + chunk])
        text = (WRAP_HEAD + "Definition cases : list bool := [\n" + body
                + "].\nFixpoint bad (i : nat) (l : list bool) : list nat := "
                "match l with [] => [] | b :: t => if b then bad (S i) t else"
                " i :: bad (S i) t end.\nEval vm_compute in (length cases, "
                "bad 0 cases).\n")
        ok, out = common.coq_run(f"c13_wrap_{c0 // chunk}", text)
        nn = len(exprs[c0:c0 + chunk])
        bad = fits.coq_indices(out, nn, run, f"c13_wrap_{c0 // chunk}") \
            if ok else None
        if bad is None:
            if not ok:
                run.obligation(f"correspondence:c13_wrap_{c0 // chunk}",
                               False, out[-2000:])
            continue
        run.obligation(f"correspondence:c13_wrap_{c0 // chunk}", not bad,
                       f"{len(bad)} of {nn} wrapper outputs disagree: "
                       + "; ".join(descr[c0 + i][:300] for i in bad[:3]))


def f_draft(delta, E, contact_point=0, baseline=0):
    """first draft of a user model: forgot the baseline"""
    root = contact_point - delta
    out = np.zeros_like(delta)
    out[root > 0] = E * root[root > 0] ** 1.5
    return out


def f_final(delta, E, contact_point=0, baseline=0):
    root = contact_point - delta
    out = np.zeros_like(delta)
    out[root > 0] = E * root[root > 0] ** 1.5
    return out + baseline


def f_other_order(delta, E, baseline=0, contact_point=0):
    """parameters after delta in another order than parameter_keys"""
    root = contact_point - delta
    out = np.zeros_like(delta)
    out[root > 0] = E * root[root > 0] ** 1.5
    return out + baseline


def f_keyword_only(delta, E, *, contact_point=0, baseline=0):
    """parameters after a bare `*` (keyword-only)"""
    root = contact_point - delta
    out = np.zeros_like(delta)
    out[root > 0] = E * root[root > 0] ** 1.5
    return out + baseline


def signature_order_cases(run):
    for nm, fn in (("nv_order", f_other_order), ("nv_kwonly", f_keyword_only)):
        _signature_cases(run, nm, fn)


def _signature_cases(run, nm, f_other_order):
    """the wrappers hand the parameters to the user's function BY NAME: a
    function whose signature lists them in another order than parameter_keys
    (only a warning at registration) is evaluated correctly"""
    from nanite import model
    from nanite.model.residuals import compute_contact_point_weights as cw
    with warnings.catch_warnings():
        warnings.simplefilter("ignore")
        try:
            md = model.register_model(make_module(nm, f_other_order))
        except BaseException as e:
            run.case({"signature": nm, "refused": type(e).__name__},
                     kind="signature-refused")
            return
    try:
        for orient in ("desc", "asc"):
            x = np.linspace(1e-6, -1e-6, 11)
            if orient == "asc":
                x = x[::-1].copy()
            y = np.linspace(-1e-9, 2e-9, 11)
            p = md.get_parameter_defaults()
            p["E"].set(value=2.5)
            p["contact_point"].set(value=2e-7)
            p["baseline"].set(value=3e-10)
            run.case({"signature-order": orient, "function": nm},
                     kind="signature-order")
            key = f"signature-order:{nm}:{orient}"
            try:
                out = np.asarray(md.model(p, x))
                res = np.asarray(md.residual(p, x, y, 5e-7))
            except BaseException as e:
                run.failing(SITE, key + "|raised", f"raised "
                            f"{type(e).__name__}: {e}",
                            payload={"kind": "rerun"})
                continue
            asc = x[0] < x[-1]
            inner = f_other_order((x[::-1] if asc else x).copy(), E=2.5,
                                  contact_point=2e-7, baseline=3e-10)
            want = inner[::-1] if asc else inner
            if out.tobytes() != np.asarray(want).tobytes():
                run.failing(SITE, key + "|model", f"{orient}: model() of a "
                            "user model whose function lists (baseline, "
                            "contact_point) in another order than "
                            "parameter_keys differs from the function "
                            "evaluated by name (max "
                            f"{float(np.max(np.abs(out - want))):.3g})",
                            payload={"kind": "rerun"},
                            theorem="C13_wrapper_calls_on_seen")
            wres = (y - want) * cw(2e-7, x, 5e-7)
            if res.tobytes() != wres.tobytes():
                run.failing(SITE, key + "|residual", f"{orient}: default "
                            "residual is not (data - model function) * "
                            "weights", payload={"kind": "rerun"},
                            theorem="C13_default_residual")
    finally:
        model.deregister_model(md)


def reload_cases(run):
    """a user model is registered, then another module with the SAME key
    (the edited model) is registered without deregistering first, then the
    first one again: the registry's model / residual must always evaluate the
    function of the module registered last"""
    from nanite import model
    from nanite.model.residuals import compute_contact_point_weights as cw
    key = "nv_reload"
    seq = [("draft", f_draft), ("final", f_final), ("index", f_index_weighted),
           ("draft", f_draft), ("final", f_final)]
    last = None
    try:
        for step, (tag, func) in enumerate(seq):
            last = model.register_model(make_module(key, func))
            md = model.models_available[key]
            cfg = {"reload-step": step, "function": tag}
            k2 = f"reload:{step}:{tag}"
            run.case(cfg, kind="reload")
            for orient in ("desc", "asc"):
                x = np.linspace(1e-6, -1e-6, 9)
                if orient == "asc":
                    x = x[::-1].copy()
                y = np.linspace(-1e-9, 2e-9, 9)
                p = md.get_parameter_defaults()
                p["E"].set(value=2.5)
                p["contact_point"].set(value=1e-7)
                p["baseline"].set(value=3e-10)
                try:
                    out = md.model(p, x)
                    res = md.residual(p, x, y, 5e-7)
                except BaseException as e:
                    run.failing(SITE, k2 + "|raised", f"{cfg}: raised "
                                f"{type(e).__name__}: {e}",
                                payload={"kind": "rerun"})
                    continue
                asc = x[0] < x[-1]
                inner = func((x[::-1] if asc else x).copy(), **p.valuesdict())
                want = inner[::-1] if asc else inner
                if md.module.model_func is not func:
                    run.failing(SITE, k2 + "|registry", f"{cfg}: the "
                                "registry does not hold the module "
                                "registered last", payload={"kind": "rerun"},
                                theorem="C13_wrapper_calls_on_seen")
                elif np.asarray(out).tobytes() != np.asarray(want).tobytes():
                    run.failing(SITE, k2 + "|model", f"{cfg} ({orient}): "
                                "model() of the registered model is not its "
                                "own model function (baseline shift "
                                f"{float(np.max(np.abs(out - want))):.3g})",
                                payload={"kind": "rerun"},
                                theorem="C13_wrapper_calls_on_seen")
                wres = (y - want) * cw(p["contact_point"].value, x, 5e-7)
                if np.asarray(res).tobytes() != wres.tobytes():
                    run.failing(SITE, k2 + "|residual", f"{cfg} ({orient}): "
                                "default residual is not (data - model "
                                "function) * weights", payload={"kind": "rerun"},
                                theorem="C13_default_residual")
    finally:
        if last is not None and key in model.models_available:
            model.deregister_model(model.models_available[key])


def reuse_buffer_cases(run):
    """the caller reuses ONE abscissa array and changes it in place between
    calls (a contact-point sweep over a preallocated buffer): model() and the
    default residual must answer for the values the array holds at the time of
    the call, exactly as for a fresh array with those values"""
    from nanite import model
    user = model.register_model(make_module("nv_buf", f_final))
    try:
        keys = [k for k in sorted(model.models_available)
                if getattr(model.models_available[k].module, "__file__",
                           "").startswith(str(common.REPO))] + ["nv_buf"]
        for key in keys:
            md = model.models_available[key]
            for orient in ("asc", "desc"):
                base = np.linspace(-1.5e-6, 1e-6, 40)
                if orient == "desc":
                    base = base[::-1].copy()
                buf = base.copy()
                y = np.linspace(0, 2e-9, 40)
                p = md.get_parameter_defaults()
                cfg = {"reused-buffer": key, "orientation": orient}
                run.case(cfg, kind="reused-buffer")
                k2 = f"buffer:{key}:{orient}"
                try:
                    for shift in (0.0, 3e-7, -2e-7, 7e-7):
                        np.add(base, shift, out=buf)
                        p["contact_point"].set(value=1e-7 + shift)
                        got = np.array(md.model(p, buf), copy=True)
                        res = np.array(md.residual(p, buf, y, 5e-7),
                                       copy=True)
                        # reference: the same values in the other
                        # orientation on fresh arrays (the wrappers are
                        # direction agnostic), re-reversed
                        want = np.asarray(md.model(p, buf[::-1].copy()))[::-1]
                        wres = np.asarray(md.residual(
                            p, buf[::-1].copy(), y[::-1].copy(), 5e-7))[::-1]
                        if got.tobytes() != np.asarray(want).tobytes():
                            run.failing(
                                SITE, k2 + "|model", f"{cfg}: model() on a "
                                f"reused array shifted in place by {shift} "
                                "differs from model() on a fresh array with "
                                "the same values (max "
                                f"{float(np.max(np.abs(got - want))):.3g})",
                                payload={"kind": "rerun"},
                                theorem="C13_wrapper_calls_on_seen")
                            break
                        if res.tobytes() != np.asarray(wres).tobytes():
                            run.failing(
                                SITE, k2 + "|residual", f"{cfg}: residual() "
                                "on a reused array shifted in place by "
                                f"{shift} differs from residual() on a fresh "
                                "array with the same values",
                                payload={"kind": "rerun"},
                                theorem="C13_default_residual")
                            break
                except BaseException as e:
                    run.failing(SITE, k2 + "|raised", f"{cfg}: raised "
                                f"{type(e).__name__}: {e}",
                                payload={"kind": "rerun"})
    finally:
        model.deregister_model(user)


def check_laws(run):
    """the structural laws on every registered model, numerically"""
    from nanite import model
    n = 25 if run.tier == "quick" else 400
    for mk in sorted(model.models_available):
        md = model.models_available[mk]
        dflt = md.get_parameter_defaults()
        names = list(dflt.keys())
        if "contact_point" not in names or "baseline" not in names:
            continue
        for i in range(n):
            p = md.get_parameter_defaults()
            for name in names:
                par = p[name]
                if name == "contact_point":
                    par.set(value=run.rng.uniform(-5e-7, 5e-7))
                elif name == "baseline":
                    par.set(value=run.rng.uniform(-1e-10, 1e-10))
                elif name.startswith("E"):
                    hi = par.max if math.isfinite(par.max) else 1e5
                    par.set(value=min(10 ** run.rng.uniform(1, 4.5), hi))
            enames_ = [k_ for k_ in names if k_.startswith("E")]
            if len(enames_) >= 2 and i % 5 == 0:
                # several moduli: small and nearly equal values are in
                # bounds too (the scaling law holds at every magnitude)
                pair = [(1.2, 0.5), (0.9, 0.1), (500.0, 499.5),
                        (0.3, 0.30001), (40.0, 39.2)][(i // 5) % 5]
                for en, v in zip(enames_, pair):
                    p[en].set(value=v)
            R = p["R"].value if "R" in p else 1e-5
            depth_max = min(R, 3e-6)
            cp = p["contact_point"].value
            x = np.concatenate([
                cp + np.linspace(2e-6, 0, 15),
                cp - np.linspace(0, depth_max, 40)[1:]])
            if run.rng.random() < 0.5:
                x = x[::-1].copy()
            x0 = x.copy()
            cfg = {"model": mk, "params": {k: float(v.value)
                                           for k, v in p.items()},
                   "ascending": bool(x[0] < x[-1])}
            key = f"law:{mk}:" + common.sha(cfg)[:12]
            run.case(cfg, kind="laws-" + mk)
            with warnings.catch_warnings():
                warnings.simplefilter("ignore")
                F = md.model(p, x)

            def fail(why, thm):
                run.failing(SITE_M, key, f"{cfg}: {why}",
                            payload={"kind": "law", "cfg": cfg},
                            observed=why, theorem=thm)
            if not np.array_equal(x, x0):
                fail("abscissa modified", "C13")
            if F.shape != x.shape:
                fail("shape differs", "C13_wrapper_length")
                continue
            bl = p["baseline"].value
            fmax = max(float(np.max(np.abs(F - bl))), 1e-30)
            s = run.rng.uniform(-1e-6, 1e-6)
            p2 = md.get_parameter_defaults()
            for k_, v in p.items():
                p2[k_].set(value=v.value)
            p2["contact_point"].set(value=cp + s)
            F2 = md.model(p2, x + s)
            if np.max(np.abs(F2 - F)) > 1e-7 * fmax + 1e-22:
                fail("shifting abscissa and contact point changes the force",
                     "C13_translate")
            p2["contact_point"].set(value=cp)
            c = 3.3e-10
            p2["baseline"].set(value=bl + c)
            F3 = md.model(p2, x)
            if np.max(np.abs(F3 - (F + c))) > 1e-12 * (fmax + abs(c)):
                fail("adding to the baseline does not add to the force",
                     "C13_baseline_add")
            p2["baseline"].set(value=bl)
            lam = 2.5 if len(enames_) < 2 or i % 5 else [1000.0, 1e4, 2.0,
                                                         300.0, 0.5][
                (i // 5) % 5]
            enames = [k_ for k_ in names if k_.startswith("E")]
            okb = True
            for en in enames:
                v = p[en].value * lam
                if v > p[en].max:
                    okb = False
                p2[en].set(value=v)
            if enames and okb:
                F4 = md.model(p2, x)
                if np.max(np.abs((F4 - bl) - lam * (F - bl))) > 1e-9 * fmax:
                    fail("force minus baseline is not linear in the moduli",
                         "C13_modulus_linear")
            # monotone in depth and continuous at contact
            order = np.argsort(-x)             # decreasing x = increasing depth
            Fs = F[order]
            if np.any(np.diff(Fs) < -1e-9 * fmax):
                fail("force decreases with indentation depth (depth <= R)",
                     "C13_monotone_powerlaws / partial")
            # entirely out of contact (the contact point lies below all
            # data): the force is the baseline, and follows it
            xo = cp + np.linspace(3e-6, 1e-9, 12)
            if run.rng.random() < 0.5:
                xo = xo[::-1].copy()
            Fo = md.model(p, xo)
            p2["baseline"].set(value=bl + c)
            Fo2 = md.model(p2, xo)
            p2["baseline"].set(value=bl)
            if np.max(np.abs(Fo - bl)) > 1e-12 * (fmax + abs(bl)) or \
                    np.max(np.abs(Fo2 - (bl + c))) > 1e-12 * (fmax + abs(c)):
                fail("out of contact the force is not the baseline "
                     f"(baseline {bl!r}: force {float(Fo[0])!r}; baseline + "
                     f"{c}: force {float(Fo2[0])!r})", "C13_baseline_add")
            near = md.model(p, np.array([cp + 1e-13, cp, cp - 1e-13]))
            if np.max(np.abs(near - bl)) > 1e-6 * fmax:
                fail("force is not continuous at contact",
                     "C13_continuous_at_contact")


def partial_params_unchanged_cases(run):
    """parameter sets that leave out arguments with documented defaults handed
    to model() / residual(): the caller's object keeps exactly its entries
    (names, values, vary flags), whatever the wrapper needs internally"""
    import lmfit
    from nanite import model
    for mk in sorted(model.models_available):
        md = model.models_available[mk]
        full = md.get_parameter_defaults()
        names = list(full.keys())
        if "contact_point" not in names or "baseline" not in names:
            continue
        mfile = getattr(getattr(md, "module", None), "__file__", "") or ""
        if not (mfile.startswith(str(common.REPO)) or mk.startswith("nv_")):
            continue
        for drop in (["baseline"], ["contact_point"],
                     ["contact_point", "baseline"]):
            for fn in ("model", "residual"):
                if fn == "residual" and "contact_point" in drop:
                    continue        # the weights need the contact point
                run.case({"partial-unchanged": mk, "missing": drop,
                          "call": fn}, kind="partial-unchanged")
                key = f"partial-unchanged:{mk}:{'+'.join(drop)}:{fn}"
                try:
                    p = lmfit.Parameters()
                    for n_ in names:
                        if n_ not in drop:
                            p.add(n_, value=float(full[n_].value),
                                  vary=bool(full[n_].vary))
                    before = [(n_, float(v_.value), bool(v_.vary), v_.expr,
                               v_.min, v_.max) for n_, v_ in p.items()]
                    x = np.linspace(1e-6, -1e-6, 9)
                    x0 = x.copy()
                    y = np.linspace(0, 1e-9, 9)
                    y0 = y.copy()
                    with warnings.catch_warnings():
                        warnings.simplefilter("ignore")
                        if fn == "model":
                            md.model(p, x)
                        else:
                            md.residual(p, x, y, weight_cp=5e-7)
                    after = [(n_, float(v_.value), bool(v_.vary), v_.expr,
                              v_.min, v_.max) for n_, v_ in p.items()]
                    why = None
                    if after != before:
                        why = (f"the caller's parameter set had the entries "
                               f"{[b[0] for b in before]} and has "
                               f"{[a[0] for a in after]} after the call"
                               if [a[0] for a in after]
                               != [b[0] for b in before]
                               else "entries of the caller's parameter set "
                               "changed")
                    elif not np.array_equal(x, x0) or not np.array_equal(y,
                                                                        y0):
                        why = "the abscissa / data array was modified"
                except BaseException as e:
                    why = f"raised {type(e).__name__}: {e}"
                if why:
                    run.failing(SITE_M, key, f"{mk}.{fn}() without {drop}: "
                                f"{why}", payload={"kind": "rerun"},
                                theorem="C13 (inputs not modified)")


def expression_law_cases(run):
    """parameter sets in which one parameter follows another through a
    constraint expression, handed to model() / residual() right after an
    independent value was changed (nobody read the dependent value in
    between): the laws hold for the values the parameter set reports"""
    from nanite import model
    for mk in sorted(model.models_available):
        md = model.models_available[mk]
        names = list(md.get_parameter_defaults().keys())
        if "contact_point" not in names or "baseline" not in names:
            continue
        mfile = getattr(getattr(md, "module", None), "__file__", "") or ""
        if not (mfile.startswith(str(common.REPO)) or mk.startswith("nv_")):
            continue                   # external compiled model
        enames = [k_ for k_ in names if k_.startswith("E")
                  and k_ in md.parameter_keys]
        if not enames:
            continue
        ind = enames[0]
        ties = [(e_, f"{ind}*{0.01 * (j + 1)}")
                for j, e_ in enumerate(enames[1:])]
        if not ties:
            ties = [("baseline", f"{ind}*1e-14 + 2e-11")]
        for orient in (1, -1):
            x = np.linspace(1e-6, -1.5e-6, 11)[::orient].copy()
            y = np.linspace(0, 3e-9, 11)
            cfg = {"expression-laws": mk, "ties": ties, "orientation": orient}
            key = f"expr-law:{mk}:{orient}"
            run.case(cfg, kind="expression-laws")
            try:
                with warnings.catch_warnings():
                    warnings.simplefilter("ignore")
                    p = md.get_parameter_defaults()
                    p["contact_point"].set(value=1e-7)
                    for dep, ex in ties:
                        p[dep].set(expr=ex)
                    p[ind].set(value=1234.5)
                    F1 = np.array(md.model(p, x), copy=True)
                    vals1 = {n_: float(p[n_].value) for n_ in names}
                    lam = 3.0
                    p[ind].set(value=1234.5 * lam)
                    F2 = np.array(md.model(p, x), copy=True)
                    r2 = np.array(md.residual(p, x, y, weight_cp=5e-7),
                                  copy=True)
                    vals = {n_: float(p[n_].value) for n_ in names}
                    bl1, bl2 = vals1["baseline"], vals["baseline"]
                    asc = x[0] < x[-1]
                    inner = md.module.model_func(
                        (x[::-1] if asc else x).copy(), **vals1)
                    G1 = inner[::-1] if asc else inner
                    w = np.clip(np.abs(x - vals["contact_point"]) / 5e-7,
                                None, 1)
                why = None
                fmax = max(float(np.max(np.abs(F1 - bl1))), 1e-30)
                if F1.tobytes() != np.asarray(G1).tobytes():
                    why = ("model() differs from the model function at the "
                           "values the parameter set reports (max "
                           f"{float(np.max(np.abs(F1 - G1))):.3g})")
                elif np.max(np.abs((F2 - bl2) - lam * (F1 - bl1))) > \
                        1e-9 * lam * fmax:
                    why = ("force minus baseline is not linear when the "
                           f"independent modulus is scaled by {lam} and the "
                           "others follow by expression")
                elif np.max(np.abs(r2 - (y - F2) * w)) > 1e-12 * (
                        float(np.max(np.abs(y - F2))) + 1e-30):
                    why = ("default residual is not (data - model) * "
                           "weights")
            except BaseException as e:
                why = f"raised {type(e).__name__}: {e}"
            if why:
                run.failing(SITE_M, key, f"{cfg}: {why}",
                            payload={"kind": "rerun"},
                            theorem="C13_modulus_linear / "
                            "C13_default_residual")


def check(run):
    run.sources = common.source_digests(
        ["src/nanite/model/residuals.py", "src/nanite/model/core.py"])
    try:
        gen_all.generate_all()
        models, trw = gen_formulas.translate_all()
        worst = gen_formulas.self_check(models, trw, n=100, seed=run.seed)
        run.obligation("translator-self-check",
                       all(v <= 64 for v in worst.values()), str(worst))
    except gen_formulas.TranslationError as e:
        run.obligation("translation", False, str(e))
    common.prove(run, "C13", extra_targets=["Model/FitCoreF.vo"])
    run.trusted = [
        "Coq 8.16.1 kernel + vm_compute (primitive floats); Reals axioms",
        "tools/nv/gen_formulas.py; coq/Model/Wrapper.v tied by bit-exact "
        "comparison on an order-sensitive harness model",
    ]
    run.assumptions = [
        "user models' own bodies are arbitrary: the wrapper theorems hold for "
        "every length-preserving function",
        "monotonicity / continuity of the sphere series are proved for "
        "depths up to the tip radius only (beyond it the truncated "
        "polynomial is not claimed); the layered model under its parameter "
        "bounds (E_S > 0, t > 0, Poisson ratios in [0, 0.5])",
    ]
    check_wrapper(run)
    reload_cases(run)
    reuse_buffer_cases(run)
    signature_order_cases(run)
    check_laws(run)
    expression_law_cases(run)
    partial_params_unchanged_cases(run)
    run.rule = ("harness-registered order-sensitive / asserting / ancillary /"
                " expression models on abscissae of both orientations, sizes "
                "1-13, constant and unsorted; structural laws on every "
                "registered model with random parameters in bounds; "
                "non-trivial = at least two samples; distinct by config")


def replay(rec):
    return common.replay_by_rerun(sys.modules[__name__], rec)
