"""C19 -- the CLI profile persists what was entered and every producible profile
can be fitted."""
import builtins
import copy
import json
import pathlib
import shutil
import sys
import warnings

import numpy as np

from .. import common, gen_all, fits, m1
from ..common import coq_string

SITE = "nanite.cli.profile"
SITE_FIT = "nanite.cli.rating.fit_perform"
DATA = common.REPO / "tests" / "data"
SINGLE = "fmt-jpk-fd_spot3-0192.jpk-force"

HEAD = """From Coq Require Import String ZArith.
From Coq Require Import List Bool Arith.
From NV Require Import Base.Exn Gen.Tables Model.Container Model.Preproc Model.Profile.
Import ListNotations.
Local Open Scope string_scope.
Definition ostr_eqb (a b : option string) : bool :=
  match a, b with Some x, Some y => String.eqb x y | None, None => true | _, _ => false end.
Definition r_eqb (a b : res (option string)) : bool :=
  match a, b with Ok x, Ok y => ostr_eqb x y | Err e, Err f => exn_eqb e f | _, _ => false end.
Fixpoint ptrace (d st : store) (ops : list pop) : list (res (option string)) * store :=
  match ops with
  | [] => ([], st)
  | o :: t => let (st', r) := pstep d st o in
              let (rs, sf) := ptrace d st' t in (r :: rs, sf)
  end.
Fixpoint rs_eqb (a b : list (res (option string))) : bool :=
  match a, b with
  | [], [] => true
  | x :: s, y :: t => r_eqb x y && rs_eqb s t
  | _, _ => false
  end.
Definition store_eqb (a b : store) : bool :=
  Nat.eqb (length a) (length b) &&
  forallb (fun kv => ostr_eqb (aget (fst kv) b) (Some (snd kv))) a.
Definition store_agrees (d : store) (ops : list pop) (rs : list (res (option string))) (final : store) : bool :=
  let (got, sf) := ptrace d [] ops in rs_eqb got rs && store_eqb sf final.
Definition triple_eqb (a b : string * (string * string)) : bool :=
  String.eqb (fst a) (fst b) && String.eqb (fst (snd a)) (fst (snd b)) && String.eqb (snd (snd a)) (snd (snd b)).
Fixpoint triples_eqb (a b : list (string * (string * string))) : bool :=
  match a, b with
  | [], [] => true
  | x :: s, y :: t => triple_eqb x y && triples_eqb s t
  | _, _ => false
  end.
Definition onats_eqb (a b : option (list nat)) : bool :=
  match a, b with
  | Some x, Some y => Nat.eqb (length x) (length y) && forallb (fun p => Nat.eqb (fst p) (snd p)) (combine x y)
  | None, None => true
  | _, _ => false
  end.
"""


def jtxt(v):
    return json.dumps(v, sort_keys=True, allow_nan=True)


def cs(x):
    return coq_string(x)


def coq_store(d):
    return "[" + "; ".join(f"({cs(k)}, {cs(v)})" for k, v in d.items()) + "]"


def scratch(name):
    p = common.scratch() / f"c19-{name}"
    shutil.rmtree(p, ignore_errors=True)
    p.mkdir(parents=True)
    return p


# --------------------------------------------------------------------------
# 1. the store
# --------------------------------------------------------------------------
DOMAIN = {
    "model_key": ["hertz_para", "hertz_cone", "sneddon_spher_approx"],
    "preprocessing": [["compute_tip_position"],
                      ["compute_tip_position", "correct_force_offset",
                       "correct_tip_offset"], []],
    "preprocessing_options": [{}, {"correct_tip_offset": {
        "method": "fit_constant_line"}}],
    "range_type": ["absolute", "relative cp"],
    "range_x": [[0, 0], [-2e-06, 1e-06], [0.0, 5e-07]],
    "segment": [0, 1],
    "weight_cp": [5e-07, 0, 2e-06, False],
    "rating regressor": ["Extra Trees", "SVR (RBF kernel)"],
    "rating training set": ["zef18", "/some/path"],
    "fit param E value": [3000.0, 150, 1e4],
    "fit param E vary": [True, False],
    "fit param contact_point value": [0, 1e-07],
    "fit param nu min": [0.1],
    "fit param R": [1e-5],
    "fit params": [1],
}


def store_sequences(run, exprs, descr):
    from nanite.cli import profile
    defaults = {k: jtxt(v) for k, v in profile.DEFAULTS.items()}
    n = 30 if run.tier == "quick" else 300
    rng = run.rng
    for i in range(n):
        d = scratch(f"store-{i}")
        path = d / "profile.cfg"
        # two profile objects alive on the same file, used interleaved (a
        # GUI and a batch run, or fit_perform's own objects): every operation
        # goes through the file
        objs = [profile.Profile(path), profile.Profile(path)]
        ops, results = ["PNew", "PNew"], ["Ok None", "Ok None"]
        hist = ["new", "new"]
        for _ in range(rng.randint(2, 9)):
            r = rng.random()
            which = rng.randrange(2)
            pf = objs[which]
            if r < 0.5:
                k = rng.choice(list(DOMAIN))
                v = copy.deepcopy(rng.choice(DOMAIN[k]))
                ops.append(f"PSet {cs(k)} {cs(jtxt(v))}")
                hist.append(["set", k, v, which])
                try:
                    pf[k] = v
                    results.append("Ok None")
                except ValueError:
                    results.append("Err ValueError")
            elif r < 0.85:
                k = rng.choice(list(profile.DEFAULTS) + ["fit param E value",
                                                         "no such key"])
                ops.append(f"PGet {cs(k)}")
                hist.append(["get", k, which])
                try:
                    v = pf[k]
                    results.append(f"Ok (Some {cs(jtxt(v))})")
                except KeyError:
                    results.append("Err KeyError")
            else:
                objs[which] = profile.Profile(path)
                ops.append("PNew")
                results.append("Ok None")
                hist.append("new")
            if rng.random() < 0.15:
                # a value JSON cannot encode: refused, nothing changes
                k = rng.choice(["range_x", "segment", "weight_cp",
                                "fit param E value", "fit param nu min"])
                bad = rng.choice(["array", "int64", "set", "bytes"])
                v = {"array": np.array([0.0, 1e-6]), "int64": np.int64(1),
                     "set": {1, 2}, "bytes": b"x"}[bad]
                before_txt = path.read_text()
                ops.append(f"PSetBad {cs(k)}")
                hist.append(["set-unencodable", k, bad, which])
                try:
                    objs[which][k] = v
                    results.append("Ok None")
                except (ValueError, TypeError) as e:
                    results.append("Err " + type(e).__name__)
                if path.read_text() != before_txt:
                    run.failing(SITE, f"store:{i}:refused-write",
                                f"after {hist}: the refused write of an "
                                f"unencodable value ({bad}) to {k!r} changed "
                                "the profile file (now "
                                f"{path.read_text()[-60:]!r})",
                                payload={"kind": "store", "history": hist},
                                theorem="C19_refused_write_keeps")
                    path.write_text(before_txt)
        final = {k: jtxt(v) for k, v in json.loads(path.read_text()).items()}
        # direct statement: a NEW object returns the last value set
        fresh = profile.Profile(path)
        last = {}
        for h, r in zip(hist, results):
            if isinstance(h, list) and h[0] == "set" and r == "Ok None":
                last[h[1]] = h[2]
        for k in profile.DEFAULTS:
            want = last.get(k, profile.DEFAULTS[k])
            got = fresh[k]
            if jtxt(got) != jtxt(want):
                run.failing(SITE, f"store:{i}:{k}",
                            f"after {hist} a new profile object returns "
                            f"{got!r} for {k!r}, expected {want!r}",
                            payload={"kind": "store", "history": hist},
                            theorem="C19_store")
        run.case({"history": hist}, kind="store",
                 nontrivial=any(isinstance(h, list) and h[0] == "set"
                                for h in hist))
        exprs.append(f"store_agrees {coq_store(defaults)} "
                     f"[{'; '.join(ops)}] [{'; '.join(results)}] "
                     f"{coq_store(final)}")
        descr.append(f"store history {hist}")
        shutil.rmtree(d, ignore_errors=True)


# --------------------------------------------------------------------------
# 2. fit parameters
# --------------------------------------------------------------------------
def in_bounds_value(rng, par, edges=False):
    """a value from the parameter's domain (lmfit clips values outside the
    bounds); with edges the finite bounds themselves and 0 are candidates
    too (a radius or modulus of 0 makes the models NaN, so the scripted
    setup, whose profile is fitted afterwards, uses edges for Poisson's
    ratios only)"""
    import math
    if par is None:
        return float(rng.choice([0.0, 1234.5, 2e-6]))
    v0 = float(par.value)
    cands = [v0, v0 * 1.5, v0 * 0.5, v0 + 1e-7 if abs(v0) < 1e-3 else v0 * 2]
    if edges:
        cands += [c for c in (par.min, par.max, 0.0) if math.isfinite(c)] * 2
    ok = [c for c in cands if par.min <= c <= par.max]
    return float(rng.choice(ok or [v0]))


def fit_param_cases(run, exprs, descr):
    from nanite import model
    from nanite.cli import profile
    rng = run.rng
    keys = sorted(model.models_available)
    reps = 1 if run.tier == "quick" else 6
    for rep in range(reps):
        for mk in keys:
            d = scratch(f"fp-{mk}-{rep}")
            pf = profile.Profile(d / "p.cfg")
            pf["model_key"] = mk
            defaults = model.get_init_parms(mk)
            stored = {}
            for p in list(defaults) + ["E", "zzz", "alpha", "E_L", "t"]:
                if rng.random() < 0.5:
                    v = in_bounds_value(rng, defaults.get(p), edges=True)
                    pf[f"fit param {p} value"] = v
                    stored[f"fit param {p} value"] = v
                if rng.random() < 0.4:
                    b = bool(rng.getrandbits(1))
                    pf[f"fit param {p} vary"] = b
                    stored[f"fit param {p} vary"] = b
            before = {k: jtxt(v) for k, v in json.loads(
                (d / "p.cfg").read_text()).items()}
            run.case({"model": mk, "stored": stored}, kind="fit-params")
            try:
                got = pf.get_fit_params()
            except BaseException as e:
                run.failing(SITE, f"fitparams:{mk}:{rep}",
                            f"get_fit_params raised {type(e).__name__}: {e} "
                            f"for {mk} with {stored}",
                            payload={"kind": "fitparams", "model": mk,
                                     "stored": stored},
                            theorem="C19_fit_params")
                continue
            why = None
            if list(got) != list(defaults):
                why = "parameter names/order differ from the model's"
            for p in defaults:
                wv = stored.get(f"fit param {p} value", defaults[p].value)
                wy = stored.get(f"fit param {p} vary", defaults[p].vary)
                if not (got[p].value == wv and got[p].vary == wy):
                    why = (f"{p}: value/vary {got[p].value!r}/{got[p].vary!r}"
                           f" instead of {wv!r}/{wy!r}")
            after = json.loads((d / "p.cfg").read_text())
            for p in defaults:
                if after.get(f"fit param {p} value") != got[p].value or \
                        after.get(f"fit param {p} vary") != got[p].vary:
                    why = why or f"{p} not written back to the profile"
            # ... and nothing else in the profile changes: entries of
            # parameters the selected model does not have (stored for another
            # model) stay as they are
            lost = [k for k in before if k not in after
                    or jtxt(after[k]) != before[k]
                    and not any(k == f"fit param {p} {w}" for p in defaults
                                for w in ("value", "vary"))]
            if lost and not why:
                why = (f"entries {lost} (not parameters of {mk}) were "
                       "removed from / changed in the profile by "
                       "get_fit_params")
            if why:
                run.failing(SITE, f"fitparams:{mk}:{rep}",
                            f"get_fit_params for {mk} with {stored}: {why}",
                            payload={"kind": "fitparams", "model": mk,
                                     "stored": stored},
                            theorem="C19_fit_params")
            md = "[" + "; ".join(
                f"({cs(p)}, ({cs(jtxt(float(defaults[p].value)))}, "
                f"{cs(jtxt(bool(defaults[p].vary)))}))" for p in defaults) \
                + "]"
            obs = "[" + "; ".join(
                f"({cs(p)}, ({cs(jtxt(float(got[p].value)))}, "
                f"{cs(jtxt(bool(got[p].vary)))}))" for p in got) + "]"
            st = {k: (jtxt(float(json.loads(v))) if k.endswith("value")
                      else v) for k, v in before.items()}
            exprs.append(f"triples_eqb (get_fit_params {md} {coq_store(st)}) "
                         f"{obs}")
            descr.append(f"get_fit_params {mk} {stored}")
            shutil.rmtree(d, ignore_errors=True)
            # a second, fresh profile of the same model in the same process
            # knows nothing of the first one's entries
            d2 = scratch(f"fp2-{mk}-{rep}")
            pf2 = profile.Profile(d2 / "p.cfg")
            pf2["model_key"] = mk
            run.case({"model": mk, "second-profile": True}, kind="fit-params")
            try:
                got2 = pf2.get_fit_params()
                fresh = model.get_init_parms(mk)
                leak = [p for p in fresh
                        if not (got2[p].value == fresh[p].value
                                and got2[p].vary == fresh[p].vary)]
                if leak or list(got2) != list(fresh):
                    run.failing(
                        SITE, f"fitparams-second-profile:{mk}",
                        f"a fresh profile for {mk}, created after another "
                        f"profile with {stored} was read, returns "
                        f"{[(p, got2[p].value, got2[p].vary) for p in leak]} "
                        "instead of the model's defaults",
                        payload={"kind": "rerun"}, theorem="C19_fit_params")
            except BaseException as e:
                run.failing(SITE, f"fitparams-second-profile:{mk}",
                            f"raised {type(e).__name__}: {e}",
                            payload={"kind": "rerun"},
                            theorem="C19_fit_params")
            shutil.rmtree(d2, ignore_errors=True)


# --------------------------------------------------------------------------
# 3. legacy profiles
# --------------------------------------------------------------------------
def legacy_cases(run):
    from nanite.cli import profile
    rng = run.rng
    n = 15 if run.tier == "quick" else 150
    for i in range(n):
        d = scratch(f"legacy-{i}")
        prof = {}
        for k in profile.DEFAULTS:
            if k == "preprocessing_options" or rng.random() < 0.2:
                continue
            v = copy.deepcopy(rng.choice(DOMAIN[k]))
            if k == "preprocessing" and not v:
                v = ["compute_tip_position"]
            if k == "weight_cp":
                v = float(v)
            if k == "range_x":
                v = [float(x) for x in v]
            prof[k] = v
        for p in ["E", "R", "nu"]:
            if rng.random() < 0.5:
                prof[f"fit param {p} value"] = float(rng.choice(
                    [3000.0, 1e-5, 0.5, 0.0]))
                prof[f"fit param {p} vary"] = bool(rng.getrandbits(1))
        lines = []
        for k, v in prof.items():
            if k == "segment":
                t = rng.choice([str(v), ["approach", "retract"][v]])
            elif isinstance(v, list):
                t = ",".join(str(x) for x in v)
            else:
                t = str(v)
            lines.append(f"{k} = {t}")
            if rng.random() < 0.1:
                lines.append("")
        (d / "legacy.cfg").write_text("\n".join(lines) + "\n")
        (d / "new.cfg").write_text(json.dumps(prof))
        run.case({"legacy": prof}, kind="legacy")
        try:
            a = profile.Profile(d / "legacy.cfg").load()
            b = profile.Profile(d / "new.cfg").load()
            ok = all(jtxt(a[k]) == jtxt(b[k]) or a[k] == b[k] for k in prof) \
                and set(a) == set(b)
            why = "" if ok else f"legacy {a} vs JSON {b}"
        except BaseException as e:
            ok, why = False, f"raised {type(e).__name__}: {e}"
        if not ok:
            run.failing(SITE, f"legacy:{i}", f"legacy profile {lines}: {why}",
                        payload={"kind": "legacy", "lines": lines},
                        theorem="C19 (legacy = JSON)")
        shutil.rmtree(d, ignore_errors=True)


# --------------------------------------------------------------------------
# 3b. the legacy parser against its Coq model (Model/Legacy.v)
# --------------------------------------------------------------------------
LEGACY_HEAD = """From Coq Require Import List String Ascii Bool Arith.
From NV Require Import Base.Exn Model.Legacy.
Import ListNotations.
Definition L (l : list nat) : str := map ascii_of_nat l.
Definition tab_b (t : list (str * bool)) (s : str) : bool :=
  match find (fun e => str_eqb (fst e) s) t with Some e => snd e | None => false end.
Definition tab_s (t : list (str * str)) (s : str) : str :=
  match find (fun e => str_eqb (fst e) s) t with Some e => snd e | None => s end.
Fixpoint strs_eqb (a b : list str) : bool :=
  match a, b with
  | [], [] => true
  | x :: s, y :: t => str_eqb x y && strs_eqb s t
  | _, _ => false
  end.
(* numbers are compared through the oracle's canonical text (repr of the parsed number) *)
Definition val_eqb (fl il : str -> str) (v e : lval) : bool :=
  match v, e with
  | LBool a, LBool b => Bool.eqb a b
  | LFloat t, LFloat r => str_eqb (fl t) r
  | LInt t, LInt r => str_eqb (il t) r
  | LStr a, LStr b => str_eqb a b
  | LFloats l, LFloats r => strs_eqb (map fl l) r
  | LStrs l, LStrs r => strs_eqb l r
  | _, _ => false
  end.
Fixpoint ents_eqb (fl il : str -> str) (a b : list (str * lval)) : bool :=
  match a, b with
  | [], [] => true
  | (k, v) :: s, (k', e) :: t => str_eqb k k' && val_eqb fl il v e && ents_eqb fl il s t
  | _, _ => false
  end.
Definition legacy_agrees (kinds : list (str * kind)) (isf isi : list (str * bool))
    (fl il : list (str * str)) (text : str) (expected : res (list (str * lval))) : bool :=
  match load_legacy (tab_b isf) (tab_b isi) kinds (split_lf text), expected with
  | Ok a, Ok b => ents_eqb (tab_s fl) (tab_s il) a b
  | Err e, Err f => exn_eqb e f
  | _, _ => false
  end.
"""


def _cl(s):
    """Coq literal of a text (list of character codes)"""
    return "(L [" + "; ".join(str(b) for b in s.encode("ascii")) + "])"


def _isnum(fn, t):
    try:
        return True, repr(fn(t))
    except ValueError:
        return False, ""


def legacy_kinds():
    import numbers
    from nanite.cli import profile
    out = []
    for k, d in profile.DEFAULTS.items():
        kind = ("KList" if isinstance(d, list) else "KStr" if isinstance(d, str)
                else "KInt" if isinstance(d, numbers.Integral) else "KOther")
        out.append(f"({_cl(k)}, {kind})")
    return "[" + "; ".join(out) + "]"


def legacy_text(rng):
    """a mostly valid old-format profile, with the deviations old files and
    hand edits show: spacing, blank lines, repeated keys, the segment words,
    capitalised booleans, and (a separate stream) malformed lines"""
    sp = lambda: rng.choice(["", " ", "  ", "\t"])
    keys = {
        "model_key": ["hertz_para", "sneddon_spher_approx", "hertz cone"],
        "preprocessing": ["compute_tip_position",
                          "compute_tip_position,correct_force_offset",
                          "compute_tip_position,correct_force_offset,"
                          "correct_tip_offset", "1,correct_tip_offset",
                          "a,2"],
        "range_type": ["absolute", "relative cp"],
        "range_x": ["0,0", "0.0,0.0", "-1e-06,2.5e-06", " -2e-6 , 1e-6", "0,1,2"],
        "segment": ["0", "1", "approach", "retract", "Approach", " 1"],
        "weight_cp": ["5e-07", "0", "0.0", "1e-6", "inf"],
        "rating regressor": ["Extra Trees", "SVR (RBF kernel)"],
        "rating training set": ["zef18", "/some/path"],
    }
    lines = []
    for k, dom in keys.items():
        if rng.random() < 0.75:
            lines.append(f"{sp()}{k}{sp()}={sp()}{rng.choice(dom)}{sp()}")
        if rng.random() < 0.08:
            lines.append(rng.choice(["", "   ", "\t"]))
    for p in ["E", "R", "nu", "contact_point"]:
        if rng.random() < 0.4:
            lines.append(f"fit param {p} value{sp()}={sp()}"
                         + rng.choice(["3000.0", "1e-05", "0.5", "0", "-1.5e-7",
                                       " 12"]))
            lines.append(f"fit param {p} vary{sp()}={sp()}"
                         + rng.choice(["True", "False", "true", "TRUE", "yes",
                                       "0", ""]))
    rng.shuffle(lines)
    if rng.random() < 0.25 and lines:          # a key given twice: last wins
        k = rng.choice(["segment", "weight_cp", "model_key"])
        lines.append(f"{k} = " + rng.choice(keys[k]))
    mal = rng.random()
    if mal < 0.35:                             # the malformed stream
        lines.insert(rng.randrange(len(lines) + 1), rng.choice([
            "no equal sign here", "unknown_key = 1", "weight_cp = abc",
            "segment = 0.5", "segment = up", "range_x = 1", "range_x = 1,b",
            "range_x = 1,2,c", "fit param E value = x", "preprocessing = ",
            "preprocessing_options = {}", "= 3", "model_key = a = b",
            "range_x = ,", "fit param E other = 1", "fit param vary = no"]))
    eol = "\r\n" if rng.random() < 0.1 else "\n"
    return eol.join(lines) + (eol if rng.random() < 0.8 else "")


def legacy_model_cases(run):
    from nanite.cli import profile
    rng = run.rng
    n = 120 if run.tier == "quick" else 1500
    kinds = legacy_kinds()
    exprs, descr = [], []
    d = scratch("legacy-model")
    for i in range(n):
        text = legacy_text(rng)
        path = d / f"p{i}.cfg"
        path.write_bytes(text.encode("ascii"))
        pf = profile.Profile.__new__(profile.Profile)
        pf.path = path
        try:
            got = pf.load_legacy()
            out = "ok"
        except BaseException as e:
            if isinstance(e, (KeyboardInterrupt, SystemExit)):
                raise
            got, out = None, type(e).__name__
        run.case({"legacy-text": text}, kind="legacy-model-" + out,
                 nontrivial=out == "ok" and bool(got))
        # oracle tables for every token the model may hand to float() / int()
        toks = set()
        for line in text.replace("\r\n", "\n").split("\n"):
            if "=" in line:
                v = line.split("=", 1)[1].strip()
                toks.add(v)
                toks.update(v.split(","))
        toks.update(["0", "1"])
        isf, isi, fl, il = [], [], [], []
        for t in sorted(toks):
            okf, rf = _isnum(float, t)
            oki, ri = _isnum(int, t)
            isf.append(f"({_cl(t)}, {str(okf).lower()})")
            isi.append(f"({_cl(t)}, {str(oki).lower()})")
            if okf:
                fl.append(f"({_cl(t)}, {_cl(rf)})")
            if oki:
                il.append(f"({_cl(t)}, {_cl(ri)})")
        if got is None:
            exp = f"(Err {m1.exn_coq(out)})"
        else:
            ents = []
            for k, v in got.items():
                if isinstance(v, bool):
                    cv = f"LBool {str(v).lower()}"
                elif isinstance(v, float):
                    cv = f"LFloat {_cl(repr(v))}"
                elif isinstance(v, int):
                    cv = f"LInt {_cl(repr(v))}"
                elif isinstance(v, str):
                    cv = f"LStr {_cl(v)}"
                elif isinstance(v, list) and v and all(
                        isinstance(x, float) for x in v):
                    cv = ("LFloats [" + "; ".join(_cl(repr(x)) for x in v)
                          + "]")
                elif isinstance(v, list):
                    cv = "LStrs [" + "; ".join(_cl(str(x)) for x in v) + "]"
                else:
                    cv = "LStr " + _cl("<unexpected type>")
                ents.append(f"({_cl(k)}, {cv})")
            exp = "(Ok [" + "; ".join(ents) + "])"
        tb = lambda l: "[" + "; ".join(l) + "]"
        exprs.append(f"legacy_agrees {kinds} {tb(isf)} {tb(isi)} {tb(fl)} "
                     f"{tb(il)} {_cl(text)} {exp}")
        descr.append(repr(text) + " -> " + out)
        # direct statements on what loaded (the types the command line
        # relies on; a repeated key: the last line wins)
        if got is not None:
            for k, v in got.items():
                if k.startswith("fit param") and k.endswith("vary") \
                        and not isinstance(v, bool):
                    run.failing(SITE, f"legacy-typed:{i}", f"legacy text "
                                f"{text!r}: {k} loads as {v!r}, not a bool",
                                payload={"kind": "rerun"},
                                theorem="C19_legacy_typed")
        path.unlink()
    fits.eval_bool_cases(run, "c19_legacy", exprs, descr, head=LEGACY_HEAD,
                         chunk=40)
    shutil.rmtree(d, ignore_errors=True)


# --------------------------------------------------------------------------
# 4. the interactive setup, scripted
# --------------------------------------------------------------------------
SECTIONS = ["Define preprocessing", "Select model number", "Set fit parameters",
            "Select range type", "Select fitting interval",
            "Suppress residuals", "Select training set",
            "Select rating regressor"]


class HarnessTimeout(BaseException):
    """not an Exception: library code must not swallow it"""


class TimeLimit:
    def __init__(self, seconds):
        self.seconds = seconds

    def __enter__(self):
        import signal

        def handler(signum, frame):
            raise HarnessTimeout()
        self.old = signal.signal(signal.SIGALRM, handler)
        signal.setitimer(signal.ITIMER_REAL, self.seconds, 2)

    def __exit__(self, *a):
        import signal
        signal.setitimer(signal.ITIMER_REAL, 0)
        signal.signal(signal.SIGALRM, self.old)


class Script:
    """answers per section; records every (section, prompt, answer)"""

    def __init__(self, answers):
        self.answers = {k: list(v) for k, v in answers.items()}
        self.section = None
        self.log = []

    def print(self, *a, **k):
        text = " ".join(str(x) for x in a)
        for s in SECTIONS:
            if s in text:
                self.section = s

    def input(self, prompt=""):
        sec = self.section
        key = sec
        if sec == "Set fit parameters":
            key = "value" if "initial value" in prompt else "vary"
        if sec == "Select fitting interval":
            key = "left" if prompt.startswith("left") else "right"
        q = self.answers.get(key, [])
        ans = q.pop(0) if q else ""
        self.log.append((key, prompt, ans))
        return ans


def run_setup(path, answers):
    from nanite.cli import profile
    sc = Script(answers)
    o_in, o_pr = builtins.input, builtins.print
    o_def, o_argv = profile.Profile.__init__.__defaults__, sys.argv
    try:
        builtins.input, builtins.print = sc.input, sc.print
        profile.Profile.__init__.__defaults__ = (path, True)
        sys.argv = ["nanite-setup-profile"]
        with warnings.catch_warnings():
            warnings.simplefilter("ignore")
            profile.setup_profile()
        exn = None
    except BaseException as e:
        if isinstance(e, (KeyboardInterrupt, SystemExit)):
            raise
        exn = e
    finally:
        builtins.input, builtins.print = o_in, o_pr
        profile.Profile.__init__.__defaults__ = o_def
        sys.argv = o_argv
    return sc, exn


def setup_cases(run, exprs, descr):
    from nanite import model, preproc
    from nanite import rate
    from nanite.cli import profile
    from nanite.cli.rating import fit_data
    rng = run.rng
    steps = [pp.identifier for pp in preproc.PREPROCESSORS]
    models = sorted(model.models_available)
    regs = rate.reg_names
    n = 10 if run.tier == "quick" else 80
    pre_cands = ["1", "1,2,4", "1,4,3", "4,1", "3", "0", "1,7", "1,4,3,2,5,6",
                 "6,1", "1,1,4", "x", "1,4", "2", "1,-1", "1,5,3", "1,4,3,5"]
    # user training sets: a complete copy of the shipped one, copies that
    # lack a feature file / everything but the response, an empty folder
    ts_src = pathlib.Path(rate.IndentationRater.get_training_set_path())
    ts_need = sorted(f.name for f in ts_src.glob("train_*.txt")
                     if "feat_con" in f.name or "response" in f.name)
    tsd = scratch("user-training-sets")
    ts_dirs = {}
    for nm_, drop in [("full", []), ("partial-a", [ts_need[3]]),
                      ("partial-b", [ts_need[-2]]),
                      ("response-only", [f for f in ts_need
                                         if "response" not in f]),
                      ("empty", list(ts_need))]:
        dd_ = tsd / f"ts_{nm_}"
        dd_.mkdir(parents=True, exist_ok=True)
        for f in ts_need:
            if f not in drop:
                shutil.copy(ts_src / f, dd_ / f)
        ts_dirs[nm_] = str(dd_)

    def ts_complete(ans_):
        pth = pathlib.Path(ans_)
        if not pth.exists():
            pth = ts_src.parent / f"ts_{ans_}"
        return all((pth / f).is_file() for f in ts_need)
    for i in range(n):
        d = scratch(f"setup-{i}")
        path = d / "cli_profile.cfg"
        # an existing profile to start from (sometimes none)
        if rng.random() < 0.5:
            pf0 = profile.Profile(path)
            pf0["range_x"] = [-1e-6, 2e-6]
            pf0["weight_cp"] = 1e-6
        ans = {
            "Define preprocessing": rng.sample(pre_cands, rng.randint(0, 3)),
            "Select model number": rng.sample(
                ["0", str(len(models) + 1), "a"], rng.randint(0, 1))
            + rng.choice([[], [str(rng.randint(1, len(models)))]]),
            "value": None,      # filled in below, per parameter
            "vary": [rng.choice(["", "", "true", "False", "maybe", "TRUE"])
                     for _ in range(10)],
            "Select range type": rng.sample(
                ["relative", "relative cp", "absolute", "rel", "Absolute"],
                rng.randint(0, 3)),
            "left": rng.choice([[], ["-1.5"], ["0"]]),
            "right": rng.choice([[], ["2.5"], ["0.5"]]),
            "Suppress residuals": rng.choice([[], ["0.75"], ["0"]]),
            "Select training set": [
                [], ["zef18"], ["no_such_set", "zef18"],
                [ts_dirs["full"]], [ts_dirs["partial-a"], ts_dirs["full"]],
                [ts_dirs["partial-b"]], [ts_dirs["response-only"], "zef18"],
                [ts_dirs["empty"]], [ts_dirs["partial-a"]]][
                    i % 9 if i % 2 else rng.randrange(9)],
            "Select rating regressor": rng.sample(
                ["0", str(len(regs) + 1), "zz"], rng.randint(0, 1))
            + rng.choice([[], [str(rng.randint(1, len(regs)))]]),
        }
        before = json.loads(path.read_text()) if path.exists() and \
            path.read_text().strip() else {}
        before = {**profile.DEFAULTS, **before}
        # the model that will be selected decides the parameter prompts
        sel = [a for a in ans["Select model number"]
               if a.isdigit() and 1 <= int(a) <= len(models)]
        mk_final = models[int(sel[0]) - 1] if sel else before["model_key"]
        pd = model.get_init_parms(mk_final)
        ans["value"] = [rng.choice(["", repr(in_bounds_value(
            rng, pd[p_], edges=p_.startswith("nu")))]) for p_ in pd]
        script, exn = run_setup(path, copy.deepcopy(ans))
        key = f"setup:{i}"
        payload = {"kind": "setup", "answers": ans}
        run.case({"answers": ans}, kind="setup")
        if exn is not None:
            run.failing(SITE, key + "|raised",
                        f"setup_profile raised {type(exn).__name__}: {exn} "
                        f"for the answers {ans}", payload=payload,
                        theorem="C19_setup_*")
            continue
        after = json.loads(path.read_text())
        log = script.log

        def attempts(k):
            return [a for (kk, _, a) in log if kk == k]

        def fail(what, thm):
            run.failing(SITE, key + "|" + what.split(":")[0][:40],
                        f"answers {ans}: {what}", payload=payload,
                        theorem=thm)
        # --- preprocessing
        att = attempts("Define preprocessing")
        acc = att[-1]
        cur = before["preprocessing"]
        if acc:
            want = [steps[int(x) - 1] for x in acc.split(",")]
            if after["preprocessing"] != want:
                fail(f"preprocessing: answer {acc!r} stored as "
                     f"{after['preprocessing']}", "C19_setup_menu")
        elif after["preprocessing"] != cur:
            fail("preprocessing: skipped but changed", "C19_setup_menu")
        for a in att:
            if not a:
                continue
            try:
                nums = "[" + "; ".join(f"({int(x)})%Z"
                                       for x in a.split(",")) + "]"
            except ValueError:
                continue
            if a is acc:
                ids = "(Some [" + "; ".join(
                    str(steps.index(s)) for s in after["preprocessing"]) + "])"
            else:
                ids = "None"
            exprs.append(f"onats_eqb (prompt_preproc step_table {nums}) {ids}")
            descr.append(f"setup {i}: preprocessing answer {a!r}")
        # --- model
        att = attempts("Select model number")
        acc = att[-1]
        if acc:
            if after["model_key"] != models[int(acc) - 1]:
                fail(f"model: answer {acc!r} stored as {after['model_key']}",
                     "C19_setup_menu")
        elif after["model_key"] != before["model_key"]:
            fail("model: skipped but changed", "C19_setup_menu")
        for a in att:
            if a and a.lstrip("-").isdigit():
                want = f"(Some {cs(models[int(a) - 1])})" if a is acc \
                    else "None"
                exprs.append(
                    f"ostr_eqb (menu_item [{'; '.join(cs(m) for m in models)}]"
                    f" ({int(a)})%Z) {want}")
                descr.append(f"setup {i}: model answer {a!r}")
        # --- parameters
        pnames = list(model.get_init_parms(after["model_key"]))
        vals = [(p_, a) for (kk, p_, a) in log if kk == "value"]
        for (prompt, a), p in zip(vals, pnames):
            if a and after.get(f"fit param {p} value") != float(a):
                fail(f"parameter {p}: value {a!r} stored as "
                     f"{after.get(f'fit param {p} value')!r}",
                     "C19_setup (fit parameters)")
        varies = [(p_, a) for (kk, p_, a) in log if kk == "vary"]
        lastv = {}
        for prompt, a in varies:
            name = prompt.strip().split()[1]
            if a.strip().lower() in ("true", "false"):
                lastv[name] = a.strip().lower() == "true"
        for p, b in lastv.items():
            if after.get(f"fit param {p} vary") is not b:
                fail(f"parameter {p}: vary answer {b} stored as "
                     f"{after.get(f'fit param {p} vary')!r}",
                     "C19_setup (fit parameters)")
        # --- range type
        att = attempts("Select range type")
        cur = before["range_type"]
        for a in att:
            last = a is att[-1]
            if last:
                stored = after["range_type"]
                exprs.append(f"ostr_eqb (prompt_range_type {cs(cur)} {cs(a)}) "
                             f"(Some {cs(stored)})")
            else:
                exprs.append(f"ostr_eqb (prompt_range_type {cs(cur)} {cs(a)}) "
                             "None")
            descr.append(f"setup {i}: range type answer {a!r}")
        acc = att[-1]
        want = {"": cur, "relative": "relative cp"}.get(acc, acc)
        if after["range_type"] != want:
            fail(f"range type: answer {acc!r} stored as "
                 f"{after['range_type']!r}", "C19_setup_range_type")
        # --- interval
        le, ri = attempts("left")[-1], attempts("right")[-1]
        cur = [float(v) for v in before["range_x"]]
        want = [float(le) * 1e-6 if le else cur[0],
                float(ri) * 1e-6 if ri else cur[1]]
        got = [float(v) for v in after["range_x"]]
        if not np.allclose(got, want, rtol=1e-12, atol=1e-18):
            fail(f"interval: left {le!r}, right {ri!r} on {cur} stored as "
                 f"{got}", "C19_setup_interval")
        # --- weight, training set, regressor
        w = attempts("Suppress residuals")[-1]
        if w and not np.isclose(after["weight_cp"], float(w) * 1e-6,
                                rtol=1e-12, atol=0):
            fail(f"weight_cp: answer {w!r} stored as {after['weight_cp']!r}",
                 "C19_setup (weight)")
        ts = attempts("Select training set")[-1]
        if ts and after["rating training set"] != ts:
            fail(f"training set: answer {ts!r} stored as "
                 f"{after['rating training set']!r}", "C19_setup (training)")
        if not ts_complete(str(after["rating training set"])):
            fail("training set: the setup stored "
                 f"{after['rating training set']!r}, which lacks "
                 "feature files (attempts "
                 f"{attempts('Select training set')})",
                 "C19_setup (training)")
        for a_ in attempts("Select training set")[:-1]:
            if a_ and ts_complete(a_):
                fail(f"training set: complete set {a_!r} was refused",
                     "C19_setup (training)")
        att = attempts("Select rating regressor")
        acc = att[-1]
        if acc and after["rating regressor"] != regs[int(acc) - 1]:
            fail(f"regressor: answer {acc!r} stored as "
                 f"{after['rating regressor']!r}", "C19_setup_menu")
        # --- every producible profile can be fitted
        mfile = getattr(getattr(model.models_available[after["model_key"]],
                                "module", None), "__file__", "") or ""
        if not mfile.startswith(str(common.REPO)):
            # external compiled model (outside the repository; its C code
            # can run for hours on these starting values): not fitted
            run.count("batch-fit-skipped-external-model")
            shutil.rmtree(d, ignore_errors=True)
            continue
        try:
            with warnings.catch_warnings(), TimeLimit(120):
                warnings.simplefilter("ignore")
                idnt = fit_data.__wrapped__(DATA / SINGLE, 0, path)
            if "params_fitted" not in idnt.fit_properties and \
                    idnt.fit_properties.get("success"):
                fail("batch fit: no parameters fitted", "C19 (fit accepts)")
            # (the batch fit rates every curve with the profile's rater)
            rt_ = idnt.rate_quality(
                training_set=after["rating training set"],
                regressor=after["rating regressor"])
            # (a regressor may extrapolate below 0 / above 10: any number
            # is a rating; only a failure to rate would be a refusal)
            if not isinstance(rt_, (int, float, np.integer, np.floating)):
                fail(f"batch fit: rating {rt_!r}", "C19 (fit accepts)")
        except HarnessTimeout:
            run.count("batch-fit-time-limit")
        except BaseException as e:
            if "compute_tip_position" not in after["preprocessing"] and \
                    "tip position" in str(e):
                run.failing(SITE, "setup:preprocessing-without-tip-position",
                            f"the setup accepted the preprocessing selection "
                            f"{after['preprocessing']} but the batch fit of a "
                            f"JPK curve refuses it: {type(e).__name__}: {e}",
                            payload=payload,
                            theorem="C19_setup_preproc_fit_accepts")
            else:
                fail(f"batch fit refused the profile {after}: "
                     f"{type(e).__name__}: {e}",
                     "C19_setup_preproc_fit_accepts")
        shutil.rmtree(d, ignore_errors=True)


# --------------------------------------------------------------------------
# 5. batch output
# --------------------------------------------------------------------------
def batch_cases(run):
    from nanite import IndentationGroup
    from nanite.cli import profile
    from nanite.cli.rating import fit_perform
    mkeys = ["sneddon_spher_approx"] if run.tier == "quick" else \
        ["sneddon_spher_approx", "hertz_cone", "power_layer_clifford_2009"]
    for mk in mkeys:
        d = scratch(f"batch-{mk}")
        (d / "data").mkdir()
        (d / "out").mkdir()
        files = [SINGLE, "fmt-jpk-fd_map2x2_extracted.jpk-force-map"]
        for fn in files:
            shutil.copy(DATA / fn, d / "data" / fn)
        pf = profile.Profile(d / "p.cfg")
        pf["model_key"] = mk
        # twice into the same results directory: the second run replaces the
        # statistics of the first
        for nrun in (1, 2):
            run.case({"batch": mk, "run": nrun}, kind="batch")
            try:
                with warnings.catch_warnings():
                    warnings.simplefilter("ignore")
                    o = builtins.print
                    builtins.print = lambda *a, **k: None
                    try:
                        fit_perform(d / "data", d / "out",
                                    profile_path=d / "p.cfg")
                    finally:
                        builtins.print = o
            except BaseException as e:
                run.failing(SITE_FIT, f"batch:{mk}:{type(e).__name__}:{e}",
                            f"fit_perform with model {mk} raised "
                            f"{type(e).__name__}: {e}",
                            payload={"kind": "batch", "model": mk},
                            theorem="C19 (statistics)")
                continue
            rows = [ln.split("\t") for ln in (d / "out" / "statistics.tsv")
                    .read_text().splitlines()]
            import afmformats
            want = []
            for pp in afmformats.find_data(d / "data", modality="force-distance"):
                for idnt in IndentationGroup(pp):
                    want.append((str(idnt.path), str(idnt.enum)))
            why = None
            if rows[0] != ["path", "enum", "E", "rating"]:
                why = f"header {rows[0]}"
            elif [tuple(r[:2]) for r in rows[1:]] != want:
                why = (f"{len(rows) - 1} rows for {len(want)} curves or other "
                       "paths/enumerations")
            else:
                for r in rows[1:]:
                    if round(float(r[3]), 1) != float(r[3]) or \
                            not np.isfinite(float(r[2])):
                        why = f"row {r}: rating not rounded / modulus not finite"
            if why:
                run.failing(SITE_FIT, f"batch:{mk}:rows:{nrun}", f"statistics.tsv for "
                            f"{mk} (run {nrun} into the same results "
                            f"directory): {why}", payload={"kind": "batch",
                                                     "model": mk},
                            theorem="C19 (statistics)")
        shutil.rmtree(d, ignore_errors=True)


def batch_options_cases(run):
    """a profile whose preprocessing steps carry options: the batch fit
    preprocesses with exactly these options and reports the modulus a direct
    fit with the profile's settings gives"""
    from nanite import IndentationGroup
    from nanite.cli import profile
    from nanite.cli.rating import fit_data
    fn = ("fmt-jpk-fd_single_tilted-baseline-drift-mitotic_2021-01-29"
          ".jpk-force")
    if not (DATA / fn).exists():
        run.count("batch-options-data-missing")
        return
    steps = ["compute_tip_position", "correct_tip_offset",
             "correct_force_slope", "correct_force_offset"]
    for oi, opts in enumerate([
            {"correct_tip_offset": {"method": "fit_line_polynomial"},
             "correct_force_slope": {"region": "all", "strategy": "drift"}},
            {"correct_force_slope": {"region": "approach",
                                     "strategy": "shift"}}]):
        d = scratch(f"batch-options-{oi}")
        pf = profile.Profile(d / "p.cfg")
        pf["model_key"] = "hertz_para"
        pf["preprocessing"] = list(steps)
        pf["preprocessing_options"] = copy.deepcopy(opts)
        run.case({"batch-options": opts}, kind="batch-options")
        key = f"batch-options:{oi}"
        try:
            with warnings.catch_warnings():
                warnings.simplefilter("ignore")
                got = fit_data.__wrapped__(DATA / fn, 0, d / "p.cfg")
                ref = IndentationGroup(DATA / fn)[0]
                ref.apply_preprocessing(list(steps), copy.deepcopy(opts))
                pfit = profile.Profile(d / "p.cfg").get_fit_params()
                ref.fit_model(model_key="hertz_para", params_initial=pfit,
                              range_x=pf["range_x"],
                              range_type=pf["range_type"],
                              segment=pf["segment"],
                              weight_cp=pf["weight_cp"])
            why = None
            if jtxt(got.preprocessing_options) != jtxt(opts):
                why = (f"the batch fit preprocessed with the options "
                       f"{got.preprocessing_options}, the profile stores "
                       f"{opts}")
            else:
                ea = got.fit_properties["params_fitted"]["E"].value
                eb = ref.fit_properties["params_fitted"]["E"].value
                if abs(ea / eb - 1) > 1e-9:
                    why = (f"the batch fit reports E = {ea!r}, a direct fit "
                           f"with the profile's settings {eb!r}")
        except BaseException as e:
            why = f"raised {type(e).__name__}: {e}"
        if why:
            run.failing(SITE_FIT, key, f"profile with {opts}: {why}",
                        payload={"kind": "rerun"}, theorem="C19 (statistics)")
        shutil.rmtree(d, ignore_errors=True)


def check(run):
    run.sources = common.source_digests(["src/nanite/cli/profile.py",
                                         "src/nanite/cli/rating.py"])
    gen_all.generate_all()
    common.prove(run, "C19")
    run.trusted = [
        "Coq 8.16.1 kernel + vm_compute (closed under the global context)",
        "coq/Model/Legacy.v (the old key = value parser) tied by loading "
        "generated old-format texts (valid, hand-edited, malformed) with the "
        "real load_legacy and evaluating the model on the same characters, "
        "float() / int() handed in as tables of the tokens of each text",
        "coq/Model/Profile.v tied by replaying random set/get/new-object "
        "histories, get_fit_params calls and every answer given to the "
        "scripted setup prompts (range type, menus, preprocessing) in Coq",
        "builtins.input / print replaced from the harness to drive "
        "setup_profile(); the profile path is redirected to scratch files",
    ]
    run.assumptions = [
        "json.loads(json.dumps(v)) == v on the values used (JSON oracle); "
        "values are compared by canonical JSON text",
        "float prompts are only given texts float() accepts (other texts "
        "make setup_profile raise: not an accepted answer)",
        "argparse and the TIFF output are outside the model",
        "legacy texts: ASCII only (str.strip() also strips non-ASCII white "
        "space, which the byte-level model does not know); float() / int() "
        "are oracles of the legacy theorems",
    ]
    exprs, descr = [], []
    store_sequences(run, exprs, descr)
    fit_param_cases(run, exprs, descr)
    legacy_cases(run)
    legacy_model_cases(run)
    setup_cases(run, exprs, descr)
    batch_cases(run)
    batch_options_cases(run)
    fits.eval_bool_cases(run, "c19_profile", exprs, descr, head=HEAD, chunk=40)
    run.extra["coq_cases"] = len(exprs)
    run.rule = ("random histories of writes / reads / new profile objects "
                "over every profile key (valid and invalid) compared with the "
                "Coq store and with a fresh object; get_fit_params for every "
                "registered model with random stored entries; legacy vs JSON "
                "profiles; generated old-format texts vs the Coq parser; scripted runs of the interactive setup (each prompt "
                "skipped, answered, or answered wrongly first) with every "
                "accepted answer compared with what is stored and the "
                "resulting profile handed to the batch fit; statistics file "
                "of a batch run; distinct by history / answers")


def replay(rec):
    return common.replay_by_rerun(sys.modules[__name__], rec)
