"""C07 -- each preprocessing step does what its description says."""
import warnings

import sys

import numpy as np

from .. import common, gen_all, curves, fits
from ..common import coq_float
from ..fits import flist, blist

SITE = "nanite.preproc"
HEIGHTS = ["height (measured)", "height (piezo)", "tip position"]
OWNED = {
    "compute_tip_position": {"tip position"},
    "correct_force_offset": {"force"},
    "correct_tip_offset": {"tip position"},
    "correct_force_slope": {"force"},
    "correct_split_approach_retract": {"segment"},
    "smooth_height": set(HEIGHTS),
}
REGIONS = ["baseline", "approach", "all"]
STRATEGIES = ["shift", "drift"]

HEAD = """From Coq Require Import List Bool PrimFloat.
From NV Require Import Base.Exn Model.FitCore Model.FitCoreF Model.Steps Model.StepsF
     Model.Median Model.MedianF.
Import ListNotations.
Definition bools_eqb (a b : list bool) : bool :=
  Nat.eqb (length a) (length b) && forallb (fun p => Bool.eqb (fst p) (snd p)) (combine a b).
Definition floats_same (a b : list float) : bool :=
  Nat.eqb (length a) (length b) && forallb (fun p => f_same (fst p) (snd p)) (combine a b).
Definition ok_same (r : res (list float)) (b : list float) : bool :=
  match r with Ok a => floats_same a b | Err _ => false end.
Definition is_err (r : res (list float)) (e : exn) : bool :=
  match r with Ok _ => false | Err e' => exn_eqb e e' end.
"""


# --------------------------------------------------------------------------
# curves
# --------------------------------------------------------------------------
def synthetic(model_key, seed, n_app=110, n_ret=55, tilt=0.0, drift=0.0,
              lag=0, noise=2e-11, spring=0.05):
    rng = np.random.default_rng(seed)
    true = fits.default_params(model_key)
    true["contact_point"] = float(rng.uniform(0.5e-6, 2.5e-6))
    if "E" in true:
        true["E"] = float(10 ** rng.uniform(2.5, 4))
    cols = fits.model_curve(model_key, true, n_app=n_app, n_ret=n_ret,
                            noise=0.0, rng=rng, spring=spring)
    tip = cols.pop("tip position")
    f = cols["force"]
    fmax = float(np.max(np.abs(f))) or 1e-9
    f = f + tilt * fmax * (tip - tip[0]) / (tip.max() - tip.min())
    f = f + drift * fmax * cols["time"] / cols["time"][-1]
    f = f + noise * rng.standard_normal(f.size)
    cols["force"] = f
    cols["height (measured)"] = tip - f / spring
    cols["height (piezo)"] = cols["height (measured)"] + 1e-9 * rng.random()
    if lag:
        seg = cols["segment"].copy()
        seg[n_app - lag:n_app] = 1      # microscope switches early
        cols["segment"] = seg
    return cols, spring


def recorded(fn, step):
    from nanite import IndentationGroup
    raw = IndentationGroup(common.REPO / "tests" / "data" / fn)[0]
    seg = np.array(raw["segment"])
    keep = np.zeros(seg.size, dtype=bool)
    for s in (0, 1):
        idx = np.nonzero(seg == s)[0]
        keep[idx[::step]] = True
    cols = {c: np.array(raw[c], copy=True)[keep] for c in raw.columns
            if c != "tip position"}
    return cols, float(raw.metadata["spring constant"])


def catalogue(tier):
    out = []
    from nanite import model
    keys = [k for k in ["hertz_para", "hertz_cone", "hertz_pyr3s",
                        "sneddon_spher_approx", "power_layer_clifford_2009"]
            if k in model.models_available]
    others = [k for k in sorted(model.models_available) if k not in keys]
    nrep = 1 if tier == "quick" else 4
    seed = 0
    for rep in range(nrep):
        for mk in keys + (others[:1] if rep else []):
            seed += 1
            kw = dict(tilt=[0.0, 0.15, -0.1][seed % 3],
                      drift=[0.0, 0.08, 0.0, -0.05][seed % 4],
                      lag=[0, 3, 0, 5][(seed // 2) % 4],
                      noise=[2e-11, 1e-10, 0.0][(seed // 3) % 3],
                      n_app=[110, 90, 140][rep % 3], n_ret=[55, 60][rep % 2])
            try:
                cols, k = synthetic(mk, seed, **kw)
            except BaseException:
                continue
            out.append((f"synthetic:{mk}:{seed}", cols, k))
    # a curve whose "tip position" comes with the data (exported and loaded
    # again, or a format that stores it): compute_tip_position has nothing to
    # do, the later steps work on that innate column
    try:
        cols, k = synthetic(keys[0], 77, tilt=0.0, drift=0.0, lag=0,
                            noise=2e-11, n_app=110, n_ret=55)
        cols = dict(cols)
        cols["tip position"] = cols["height (measured)"] + cols["force"] / k
        out.append((f"innate-tip-position:{keys[0]}:77", cols, k))
    except BaseException:
        pass
    # a slowly responding sample: the farthest point comes tens of samples
    # after the instrument switched from approach to retract
    for sd, lag in ((81, 40), (82, 60)):
        try:
            cols, k = synthetic(keys[0], sd, tilt=0.0, drift=0.0, lag=lag,
                                noise=2e-11, n_app=220, n_ret=140)
            out.append((f"late-turning-point:{keys[0]}:{sd}:{lag}", cols, k))
        except BaseException:
            pass
    # a height column that is a staircase (oversampled DAC ramp): weakly
    # monotone with repeated values in each segment
    try:
        cols, k = synthetic(keys[0], 78, tilt=0.0, drift=0.0, lag=3,
                            noise=2e-11, n_app=110, n_ret=55)
        cols = dict(cols)
        hp = cols["height (measured)"]
        q = float(np.ptp(hp)) / 40
        # (half a step off the grid: no signed zeros, whose order among
        # equal values is unspecified in scipy's selection)
        cols["height (piezo)"] = (np.round(hp / q) + 0.5) * q
        out.append((f"staircase-piezo:{keys[0]}:78", cols, k))
    except BaseException:
        pass
    # a curve that lacks one of the height-like columns (no piezo height, as
    # in simple csv formats): the others are smoothed all the same
    try:
        cols, k = synthetic(keys[0], 79, tilt=0.0, drift=0.0, lag=2,
                            noise=1e-10, n_app=110, n_ret=55)
        cols = {c: v for c, v in cols.items() if c != "height (piezo)"}
        # (sensor noise beyond the sampling step: neither the height nor
        # the tip position is monotone before smoothing)
        hm = cols["height (measured)"]
        cols["height (measured)"] = hm + 2.0 * abs(hm[1] - hm[0]) \
            * np.random.default_rng(79).standard_normal(hm.size)
        out.append((f"no-piezo-height:{keys[0]}:79", cols, k))
    except BaseException:
        pass
    recs = [("fmt-jpk-fd_spot3-0192.jpk-force", 12),
            ("fmt-jpk-fd_single_tilted-baseline-drift-"
             "mitotic_2021-01-29.jpk-force", 40)]
    if tier != "quick":
        recs += [("fmt-jpk-fd_single_tilted-baseline-shift-adyp_2023-06-26"
                  ".jpk-force", 40),
                 ("fmt-jpk-fd_flipsign_2015.05.22-15.31.49.352.jpk-force",
                  12)]
    for fn, step in recs:
        try:
            cols, k = recorded(fn, step)
        except BaseException as e:  # pragma: no cover
            print("[C07] cannot load", fn, e)
            continue
        out.append((f"recorded:{fn}:{step}", cols, k))
    return out


# --------------------------------------------------------------------------
# observation of third-party pieces from the harness process
# --------------------------------------------------------------------------
class Observe:
    """records the line fitted by lmfit.models.LinearModel and the median
    filter outputs inside smooth_axis_monotone"""

    def __enter__(self):
        import lmfit
        from nanite import preproc
        import nanite.smooth as sm
        self.lmfit, self.preproc, self.sm = lmfit, preproc, sm
        self.lines, self.smooth = [], []
        self.o_fit = lmfit.models.LinearModel.fit
        self.o_mono = preproc.smooth_axis_monotone
        self.o_axis = sm.smooth_axis
        me = self

        def fit(mself, data, *a, **k):
            out = me.o_fit(mself, data, *a, **k)
            me.lines.append({"m": float(out.params["slope"].value),
                             "c": float(out.params["intercept"].value),
                             "x": np.array(k["x"], copy=True),
                             "y": np.array(data, copy=True)})
            return out

        def axis(data, window=15):
            r = me.o_axis(data, window=window)
            me._last = (np.array(r, copy=True), window)
            return r

        def mono(data, *a, **k):
            rec = {"data": np.array(data, copy=True),
                   "window0": int(k.get("window", a[0] if a else 15))}
            try:
                out = me.o_mono(data, *a, **k)
                rec["out"] = np.array(out, copy=True)
            except ValueError as e:
                rec["err"] = str(e)
                raise
            finally:
                rec["median"], rec["window"] = me._last
                me.smooth.append(rec)
            return out
        lmfit.models.LinearModel.fit = fit
        sm.smooth_axis = axis
        preproc.smooth_axis_monotone = mono
        return self

    def __exit__(self, *a):
        self.lmfit.models.LinearModel.fit = self.o_fit
        self.sm.smooth_axis = self.o_axis
        self.preproc.smooth_axis_monotone = self.o_mono


def snapshot(idnt):
    return {c: np.array(idnt[c], copy=True) for c in idnt.columns}


def run_prefix(cols, k, steps, opts):
    idnt = curves.make_indentation(cols, k=k)
    with warnings.catch_warnings(), Observe() as ob:
        warnings.simplefilter("ignore")
        idnt.apply_preprocessing(list(steps), options=opts)
    return snapshot(idnt), ob


def bits(a):
    return np.asarray(a, dtype=float).tobytes()


def near(a, b, rel=1e-12):
    """equal up to rounding (a harmless regrouping of the arithmetic may move
    the last bits; the bit-exact comparison is the model correspondence's)"""
    a, b = np.asarray(a, float), np.asarray(b, float)
    if a.shape != b.shape:
        return False
    sc = max(float(np.max(np.abs(b))) if b.size else 0.0, 1e-300)
    return bool(np.all(np.abs(a - b) <= rel * sc))


def tp_oracles(force, idp):
    """np.average / np.std values used inside find_turning_point"""
    avg = np.average(force[:idp])
    y = force - avg
    y = y / y.max()
    return float(avg), float(np.std(y[:idp]))


# --------------------------------------------------------------------------
# one step: direct relations (search) + Coq expression (correspondence)
# --------------------------------------------------------------------------
def check_step(run, name, step, opts, B, A, ob, k, exprs, descr):
    from nanite import poc, preproc
    cfg = {"curve": name, "step": step, "options": opts.get(step, {})}
    key = f"{name}|{step}|{sorted(opts.get(step, {}).items())}"
    bad = []

    def fail(what, theorem):
        bad.append(what)
        run.failing(SITE + "." + step, key, f"{cfg}: {what}",
                    payload={"kind": "step", "cfg": cfg}, theorem=theorem)

    # frame: number of points, columns the step does not own
    n = B["force"].size
    for c in A:
        if A[c].size != n:
            fail(f"column {c!r} changed its length {n} -> {A[c].size}",
                 "C07 frame")
    for c in B:
        if c in OWNED[step]:
            continue
        if c not in A or bits(A[c]) != bits(B[c]):
            fail(f"column {c!r}, not owned by the step, was changed",
                 "C07 frame")
    extra = set(A) - set(B) - OWNED[step]
    if extra:
        fail(f"unexpected new columns {sorted(extra)}", "C07 frame")

    if step == "compute_tip_position":
        h, f, tip = B["height (measured)"], B["force"], A["tip position"]
        if not near(tip, h + f / k):
            fail("tip position is not height + force / spring constant",
                 "C07_tip_position")
        exprs.append(f"floats_same (f_tip_position {coq_float(k)} {flist(h)} "
                     f"{flist(f)}) {flist(tip)}")
    elif step == "correct_force_offset":
        f, new = B["force"], A["force"]
        idp = poc.compute_poc(force=f, method="deviation_from_baseline")
        d = new - f
        scale = max(float(np.max(np.abs(f))), 1e-300)
        if np.max(np.abs(d - d[0])) > 4e-16 * scale:
            fail("force changed by more than one constant", "C07_force_offset")
        if idp:
            avg = float(np.average(f[:idp]))
            if abs(float(np.mean(new[:idp]))) > 1e-12 * scale:
                fail("mean pre-contact force is not zero after correction",
                     "C07_force_offset")
        else:
            avg = 0.0
            if new[0] != 0:
                fail("first sample is not zero (contact index 0)",
                     "C07_force_offset")
        exprs.append(f"floats_same (f_force_offset {int(idp)} "
                     f"{coq_float(avg)} {flist(f)}) {flist(new)}")
    elif step == "correct_tip_offset":
        tip, new, f = B["tip position"], A["tip position"], B["force"]
        meth = opts.get(step, {}).get("method", "deviation_from_baseline")
        with warnings.catch_warnings():
            warnings.simplefilter("ignore")
            cpid = int(poc.compute_poc(force=f, method=meth))
        if not (0 <= cpid < n):
            fail(f"contact index {cpid} outside the data", "C07_tip_offset")
        else:
            if new[cpid] != 0:
                fail("tip position is not zero at the contact index",
                     "C07_tip_offset")
            if not near(new, tip - tip[cpid]):
                fail("tip position changed by more than one constant",
                     "C07_tip_offset")
        exprs.append(f"ok_same (f_tip_offset {cpid} {flist(tip)}) "
                     f"{flist(new)}")
    elif step == "correct_force_slope":
        o = {"region": "baseline", "strategy": "shift"}
        o.update(opts.get(step, {}))
        tip, f, new = B["tip position"], B["force"], A["force"]
        xs = tip if o["strategy"] == "shift" else B["time"]
        idp = max(2, int(np.argmin(np.abs(tip))))
        if len(ob.lines) != 1:
            fail(f"{len(ob.lines)} line fits observed instead of one",
                 "C07_slope_region")
            return
        ln = ob.lines[0]
        m, c = ln["m"], ln["c"]
        if bits(ln["x"]) != bits(xs[:idp]) or bits(ln["y"]) != bits(f[:idp]):
            fail("the line was not fitted to the baseline (data before the "
                 "contact index) over the selected abscissa",
                 "C07_slope_removes_trend")
        ref = np.polyfit(xs[:idp] - xs[:idp].mean(), f[:idp], 1)[0]
        sc = max(abs(ref), np.ptp(f[:idp]) / max(np.ptp(xs[:idp]), 1e-300))
        if abs(m - ref) > 1e-5 * sc:
            fail(f"fitted slope {m!r} is not the least-squares slope {ref!r}",
                 "C07_slope_removes_trend")
        if o["region"] == "baseline":
            stop, anchor = idp, idp - 1
            ex = (f"floats_same (f_slope_baseline {coq_float(m)} "
                  f"{coq_float(c)} (f_contact_idx {flist(tip)}) {flist(xs)} "
                  f"{flist(f)}) {flist(new)}")
        elif o["region"] == "approach":
            idturn = max(2, int(preproc.find_turning_point(tip, f.copy(),
                                                           idp)))
            stop, anchor = idturn, idturn - 1
            avg, std = tp_oracles(f, idp)
            ex = (f"let idp := f_contact_idx {flist(tip)} in let idturn := "
                  f"Nat.max 2 (f_turning_point {coq_float(avg)} "
                  f"{coq_float(std)} idp {flist(tip)} {flist(f)}) in "
                  f"Nat.eqb idturn {idturn} && floats_same (f_slope_approach "
                  f"{coq_float(m)} {coq_float(c)} idturn {flist(xs)} "
                  f"{flist(f)}) {flist(new)}")
        else:
            stop, anchor = n, idp
            ex = (f"floats_same (f_slope_all {coq_float(m)} {coq_float(c)} "
                  f"(f_contact_idx {flist(tip)}) {flist(xs)} {flist(f)}) "
                  f"{flist(new)}")
        exprs.append(ex)
        # direct relations
        corr = f - new
        want = m * (xs - xs[anchor])
        scale = max(float(np.max(np.abs(f))), 1e-300)
        if np.max(np.abs(corr[:stop] - want[:stop])) > 1e-12 * scale:
            fail("inside the region the correction is not m*(x - x_anchor)",
                 "C07_slope_region")
        if bits(new[stop:]) != bits(f[stop:]):
            fail("data outside the selected region were modified",
                 "C07_slope_region")
        if abs(corr[anchor]) > 1e-15 * scale:
            fail("correction does not vanish at the region's anchor (jump)",
                 "C07_slope_no_jump")
        if stop < n and abs((new[stop] - new[stop - 1])
                            - (f[stop] - f[stop - 1])) > 1e-15 * scale:
            fail("a jump was introduced at the end of the region",
                 "C07_slope_no_jump")
        res = np.polyfit(xs[:idp] - xs[:idp].mean(), new[:idp], 1)[0]
        if abs(res) > 1e-4 * sc + 1e-300:
            fail(f"baseline trend not removed: residual slope {res!r} of "
                 f"{ref!r}", "C07_slope_removes_trend")
    elif step == "correct_split_approach_retract":
        f, tip, seg = B["force"], B["tip position"], A["segment"]
        idp = poc.poc_deviation_from_baseline(f)
        if idp and not np.isnan(idp):
            idp = int(idp)
            idturn = int(preproc.find_turning_point(tip, f, idp))
            want = np.zeros(n, dtype=np.uint8)
            want[idturn:] = 1
            if not np.array_equal(seg, want):
                fail("segment is not 0...0 1...1 switching at the farthest "
                     "point", "C07_split_single_switch")
            sw = int(np.count_nonzero(np.diff(seg.astype(int))))
            if 0 < idturn < n and sw != 1:
                fail(f"{sw} approach/retract switches instead of one",
                     "C07_split_single_switch")
            avg, std = tp_oracles(f, idp)
            exprs.append(
                f"let t := f_turning_point {coq_float(avg)} {coq_float(std)} "
                f"{idp} {flist(tip)} {flist(f)} in Nat.eqb t {idturn} && "
                f"bools_eqb (split {n} t) {blist(seg)}")
        else:
            if bits(seg) != bits(B["segment"]):
                fail("segment changed although no contact point was found",
                     "C07_split_single_switch")
            exprs.append("true")
    elif step == "smooth_height":
        seg = B["segment"]
        for c in HEIGHTS:
            if c not in A:
                continue
            for s in (0, 1):
                v = A[c][seg == s]
                if v.size < 2:
                    continue
                d = np.diff(v)
                if not (np.all(d > 0) or np.all(d < 0)):
                    fail(f"column {c!r} is not strictly monotonic in "
                         f"segment {s}", "C07_smooth_strictly_monotone")
        parts = []
        for rec in ob.smooth:
            whole = rec["window"] <= 63 and rec["data"].size <= 400
            if whole:
                # both loops and the median filter, from the raw column
                call = f"f_smooth 1000 {rec['window0']} {flist(rec['data'])}"
                run.count("smooth-whole-function")
            else:
                call = f"f_tiebreak 1000 {flist(rec['median'])}"
            if "out" in rec:
                parts.append(f"ok_same ({call}) {flist(rec['out'])}")
            else:
                parts.append(f"is_err ({call}) ValueError")
            md = rec["median"]
            run.count("smooth-ties" if np.unique(md).size != md.size
                      else "smooth-no-ties")
        exprs.append(" && ".join(parts) if parts else "true")
    while len(descr) < len(exprs):
        descr.append(str(cfg))
    run.case(cfg, kind=step)
    return not bad


def pipelines(tier, rng):
    from nanite import poc
    methods = [m.identifier for m in poc.POC_METHODS]
    out = []
    combos = [(r, s) for r in REGIONS for s in STRATEGIES]
    for i, meth in enumerate(methods):
        r, s = combos[i % 6]
        out.append((meth, r, s))
    if tier != "quick":
        for r, s in combos:
            out.append((rng.choice(methods), r, s))
    return out


def partial_option_pipelines():
    """slope options given in part: what is left out takes the function's
    default (region "baseline", strategy "shift")"""
    return [("deviation_from_baseline", "all", None),
            ("fit_constant_line", "approach", None),
            ("deviation_from_baseline", None, "drift")]


def run_curve(run, name, cols, k, plist, exprs, descr):
    for meth, region, strat in plist:
        steps = ["compute_tip_position", "correct_tip_offset",
                 "correct_force_slope", "correct_force_offset",
                 "correct_split_approach_retract", "smooth_height"]
        so = {}
        if region is not None:
            so["region"] = region
        if strat is not None:
            so["strategy"] = strat
        opts = {"correct_tip_offset": {"method": meth},
                "correct_force_slope": so}
        prev = None
        for j in range(len(steps) + 1):
            try:
                snap, ob = run_prefix(cols, k, steps[:j], opts)
            except BaseException as e:
                run.failing(SITE + "." + steps[j - 1],
                            f"{name}|{steps[j-1]}|raise",
                            f"{name}: step {steps[j-1]} with {opts} raised "
                            f"{type(e).__name__}: {e} on a well-formed curve",
                            payload={"kind": "raise", "curve": name,
                                     "steps": steps[:j], "opts": opts})
                break
            if j:
                check_step(run, name, steps[j - 1], opts, prev, snap, ob, k,
                           exprs, descr)
            prev = snap


def smoothing_inputs(rng, t):
    """(kind, window, data): height-like ramps whose noise exceeds the
    sampling step, periodic disturbances, quantised values, outliers,
    plateaus, and (kind 5) two plateaus close to zero whose contrary step is
    below the rounding of the sums of differences"""
    n = int(rng.integers(20, 260))
    sgn = rng.choice([1, -1])
    base = np.linspace(0, 1, n) * sgn
    kind = int(rng.integers(0, 8))
    window = 15 if rng.random() < 0.6 else int(rng.choice(
        [1, 2, 3, 4, 5, 7, 8, 9, 11, 21, 31, 33, 64]))
    if kind == 0:
        y = base + rng.normal(0, rng.choice([1e-3, 1e-2, 5e-2]), n)
    elif kind == 1:
        y = base + 0.3 / n * np.tile([0, 1.7], n // 2 + 1)[:n] \
            * rng.uniform(0.5, 4)
    elif kind == 2:
        y = np.round(base * rng.integers(5, 60)) / 50.0
    elif kind == 3:
        y = base.copy()
        k = int(rng.integers(1, 6))
        y[rng.integers(0, n, k)] += rng.normal(0, 0.3, k)
    elif kind == 4:
        y = base + np.sin(np.arange(n) * rng.uniform(0.5, 3.1)) \
            * rng.uniform(0.001, 0.05)
    elif kind == 5:
        # ramp through zero in metres; two plateaus near zero, the second
        # lower (higher) than the first by a few hundred ulps
        n = max(n, 60)
        b = int(rng.integers(8, 25))
        k = int(rng.integers(b + 2, n - b - 2))
        v = 10.0 ** rng.uniform(-15, -11)
        step = np.spacing(v) * int(rng.integers(50, 20000))
        y = np.empty(n)
        y[:k - b] = np.linspace(-5e-6, -1e-9, k - b)
        y[k - b:k] = v + step
        y[k:k + b] = v
        y[k + b:] = np.linspace(2e-9, 5e-6, n - k - b)
        y = y * sgn
    elif kind == 7:
        # a short, slow segment whose noise is far above its whole span: the
        # filtered data stay non-monotonic until the window exceeds the
        # array (the doubling loop must go on beyond the array length)
        # (lengths just below a window of the doubling sequence 15, 31,
        # 63: much of that window still hangs over the ends)
        n = int(rng.choice([27, 28, 29, 30, 56, 57, 58, 59, 60, 61, 62,
                            int(rng.integers(12, 70))]))
        window = 15
        y = np.linspace(0, 1, n) * sgn * rng.uniform(0.01, 0.3) \
            + rng.normal(0, 1.0, n)
    else:
        # strictly monotone data: fixed point (C07_smooth_fixed_point)
        y = np.cumsum(rng.uniform(1e-3, 1, n)) * sgn
    return kind, window, y


def smoothing_cases(run, exprs, descr):
    """smooth_axis_monotone called directly: the result must be strictly
    monotonic; the filter output the window-doubling loop ends with must be
    weakly monotonic (C07_smooth_whole) and equal scipy's median filter for
    that window; strictly monotone input must come back unchanged
    (C07_smooth_fixed_point); the whole function (median filter, both loops)
    is recomputed bit for bit by the Coq model from the raw input"""
    import nanite.smooth as sm
    import scipy.ndimage as im
    n_cases = 70 if run.tier == "quick" else 1500
    rng = np.random.default_rng(run.seed % (2 ** 32))
    for t in range(n_cases):
        kind, window, y = smoothing_inputs(rng, t)
        n = y.size
        key = f"smooth:{run.seed}:{t}"
        cfg = {"smoothing-case": t, "kind": kind, "n": n, "window": window}
        run.case(cfg, kind=f"smooth-direct:{kind}")
        payload = {"kind": "smooth", "data": [float(v).hex() for v in y],
                   "window": window}
        last = {}
        o_axis = sm.smooth_axis

        def axis(data, window=15):
            r = o_axis(data, window=window)
            last["m"] = np.array(r, copy=True)
            last["w"] = int(window)
            return r
        sm.smooth_axis = axis
        try:
            with warnings.catch_warnings():
                warnings.simplefilter("ignore")
                out = sm.smooth_axis_monotone(y.copy(), window=window)
            err = None
        except ValueError as e:
            out, err = None, e
        finally:
            sm.smooth_axis = o_axis
        affordable = last["w"] <= 63 or (last["w"] <= 255 and n <= 60)
        if affordable and (t % 2 == 0 or kind >= 5):
            call = f"f_smooth 1000 {window} {flist(y)}"
            exprs.append(f"ok_same ({call}) {flist(out)}" if err is None
                         else f"is_err ({call}) ValueError")
            descr.append(f"whole smoothing function, case {t} {cfg}")
            run.count("smooth-whole-function")
        if err is not None:
            run.count("smooth-direct:ValueError")
            continue
        want = im.median_filter(y, size=(last["w"],), mode="nearest")
        if bits(want) != bits(last["m"]):
            run.failing(SITE + ".smooth_height", key + "|filter",
                        f"{cfg}: the array handed to the tie-breaking loop is "
                        f"not the median filter of window {last['w']}",
                        payload=payload, theorem="C07_smooth_whole")
        d = np.diff(out)
        if not (np.all(d > 0) or np.all(d < 0)):
            j = int(np.nonzero(d < 0)[0][0] if (d > 0).sum() > (d < 0).sum()
                    else np.nonzero(d > 0)[0][0])
            run.failing(SITE + ".smooth_height", key,
                        f"{cfg}: smooth_axis_monotone returns data that are "
                        f"not strictly monotonic (step {j}: {out[j]!r} -> "
                        f"{out[j + 1]!r})", payload=payload,
                        theorem="C07_smooth_strictly_monotone")
        dm = np.diff(last["m"])
        if not (np.all(dm >= 0) or np.all(dm <= 0)):
            run.failing(SITE + ".smooth_height", key + "|median",
                        f"{cfg}: the window-doubling loop ended with a filter "
                        "output that is not weakly monotonic",
                        payload=payload, theorem="C07_smooth_whole")
        if kind == 6 and (window % 2 == 1 or y[0] < y[-1]) \
                and bits(out) != bits(y):
            run.failing(SITE + ".smooth_height", key + "|fixed-point",
                        f"{cfg}: strictly monotone data are not returned "
                        "unchanged", payload=payload,
                        theorem="C07_smooth_fixed_point")
    # the median filter alone against scipy, odd / even / over-long windows
    for t in range(12 if run.tier == "quick" else 120):
        n = int(rng.integers(1, 40))
        w = int(rng.integers(1, 2 * n + 6))
        y = rng.normal(0, 1, n)
        if t % 3 == 0:
            y = np.round(y * 3) / 3 + 0.0      # ties
        want = im.median_filter(y, size=(w,), mode="nearest")
        exprs.append(f"floats_same (f_median_filter {w} {flist(y)}) "
                     f"{flist(want)}")
        descr.append(f"median filter n={n} window={w}")
        run.count("median-filter-direct")


def pipeline_history_cases(run):
    """a pipeline that smooths the height, then one that does not, on the
    same curve object: every step of the second pipeline starts from the
    RECORDED columns (tip position = recorded height + force / k), and the
    columns no step of it owns are the recorded ones"""
    base = ["compute_tip_position", "correct_force_offset",
            "correct_tip_offset"]
    firsts = [base + ["smooth_height"],
              ["compute_tip_position", "correct_split_approach_retract",
               "smooth_height"]]
    seconds = [["compute_tip_position"], base,
               ["compute_tip_position", "correct_force_offset"]]
    curves_ = []
    for fn in ("fmt-jpk-fd_spot3-0192.jpk-force",):
        try:
            curves_.append(("recorded:" + fn[:20],) + recorded(fn, 4))
        except BaseException:
            run.count("pipeline-history-data-missing")
    cols_s, k_s = synthetic("hertz_para", 61, n_app=160, n_ret=80)
    rs = np.random.default_rng(61)
    cols_s = dict(cols_s)
    for c_ in ("height (measured)", "height (piezo)"):
        if c_ in cols_s:
            q_ = float(np.ptp(cols_s[c_])) / cols_s[c_].size
            cols_s[c_] = cols_s[c_] + rs.normal(0, 3 * q_, cols_s[c_].size)
    curves_.append(("synthetic:noisy-height", cols_s, k_s))
    for cname, cols, k in curves_:
        for p1 in firsts:
            for p2 in seconds:
                key = "pipeline-history:" + common.sha([cname, p1, p2])[:16]
                run.case({"curve": cname, "first": p1, "second": p2},
                         kind="pipeline-history")
                try:
                    with warnings.catch_warnings():
                        warnings.simplefilter("ignore")
                        fresh = curves.make_indentation(cols, k=k)
                        fresh.apply_preprocessing(list(p2))
                        a = curves.make_indentation(cols, k=k)
                        a.apply_preprocessing(list(p1))
                        smoothed = any(
                            bits(np.asarray(a[c_])) != bits(np.asarray(cols[c_]))
                            for c_ in ("height (measured)", "height (piezo)")
                            if c_ in cols)
                        a.apply_preprocessing(list(p2))
                    if not smoothed:
                        run.count("pipeline-history-smoothing-was-identity")
                    why = None
                    for c_ in fresh.columns:
                        if c_ not in a.columns or bits(np.asarray(a[c_])) != \
                                bits(np.asarray(fresh[c_])):
                            why = (f"column '{c_}' differs from the second "
                                   "pipeline on a fresh curve")
                            break
                    if why is None:
                        tp = np.asarray(a["tip position"])
                        hm = np.asarray(cols["height (measured)"])
                        f_ = np.asarray(cols["force"])
                        if "correct_tip_offset" not in p2 and \
                                "correct_force_offset" not in p2 and \
                                not near(tp, hm + f_ / k):
                            why = ("tip position is not recorded height + "
                                   "force / k")
                except BaseException as e:
                    why = f"raised {type(e).__name__}: {e}"
                if why:
                    run.failing(SITE, key, f"{cname}: {p1}, then {p2}: {why}",
                                payload={"kind": "rerun"},
                                theorem="C07_tip_position")


def check(run):
    run.sources = common.source_digests(["src/nanite/preproc.py",
                                         "src/nanite/smooth.py",
                                         "src/nanite/poc.py"])
    gen_all.generate_all()
    common.prove(run, "C07", extra_targets=["Model/StepsF.vo",
                                            "Model/MedianF.vo"])
    run.trusted = [
        "Coq 8.16.1 kernel + vm_compute with primitive floats; Reals axioms",
        "coq/Model/Steps.v (one definition, R and binary64 instances) tied by "
        "bit-exact comparison of every step's output column on synthetic and "
        "recorded curves",
        "coq/Model/Median.v (median filter, both loops of smooth_axis_monotone)"
        " tied by bit-exact comparison of the whole function from the raw "
        "column",
        "harness observation of lmfit.models.LinearModel.fit, "
        "nanite.smooth.smooth_axis and the np.average/np.std values inside "
        "find_turning_point (recomputed with the same numpy calls)",
    ]
    run.assumptions = [
        "lmfit's LinearModel returns the least-squares line (checked against "
        "numpy.polyfit to 1e-5 on every case; hypothesis of "
        "C07_slope_removes_trend)",
        "scipy.ndimage.median_filter(mode='nearest') = rank w//2 of the "
        "window i-w//2 .. i-w//2+w-1 clamped to the array (Model/Median.v; "
        "compared bit for bit on every case, odd/even/over-long windows); the "
        "smoothing loops terminate within max_iter (not proved; exhaustion is "
        "ValueError in model and code)",
        "contact-point indices come from nanite.poc (property C08)",
    ]
    cat = catalogue(run.tier)
    exprs, descr = [], []
    for name, cols, k in cat:
        plist = pipelines(run.tier, run.rng)
        if run.tier == "quick":
            # two pipelines per curve, rotating through methods x regions
            i = cat.index((name, cols, k))
            plist = [plist[(2 * i) % 6], plist[(2 * i + 1) % 6],
                     partial_option_pipelines()[i % 3]]
        else:
            plist = plist + partial_option_pipelines()
        run_curve(run, name, cols, k, plist, exprs, descr)
    smoothing_cases(run, exprs, descr)
    pipeline_history_cases(run)
    fits.eval_bool_cases(run, "c07_steps", exprs, descr, head=HEAD, chunk=8)
    run.extra["curves"] = [c[0] for c in cat]
    run.rule = ("each curve of the catalogue (synthetic from every shipped "
                "model with noise/tilt/drift/lagged turning point; decimated "
                "recorded curves) x pipelines covering 6 contact-point "
                "methods x 3 regions x 2 strategies: every step's before/"
                "after columns are checked against the defining relations "
                "and recomputed bit for bit by the Coq model; non-trivial = "
                "every (curve, step, options); distinct by that triple")


def replay(rec):
    pl = rec.get("payload") or {}
    if pl.get("kind") == "smooth":
        from nanite.smooth import smooth_axis_monotone
        with warnings.catch_warnings():
            warnings.simplefilter("ignore")
            try:
                data = np.array([float.fromhex(v) if isinstance(v, str)
                                 else float(v) for v in pl["data"]])
                out = smooth_axis_monotone(data,
                                           window=int(pl.get("window", 15)))
            except ValueError:
                return True
        d = np.diff(out)
        return bool(np.all(d > 0) or np.all(d < 0))
    cfg = pl.get("cfg") or {}
    name = cfg.get("curve") or pl.get("curve")
    if not name:
        return common.replay_by_rerun(sys.modules[__name__], rec)

    class R:
        bad = False
        rng = __import__("random").Random(0)

        def failing(self, *a, **k):
            R.bad = True
            return True

        def case(self, *a, **k):
            pass

        def count(self, *a, **k):
            pass
    for tier in ("quick", "thorough"):
        for nm, cols, k in catalogue(tier):
            if nm == name:
                run_curve(R(), nm, cols, k, pipelines("thorough", R.rng),
                          [], [])
                return not R.bad
    return common.replay_by_rerun(sys.modules[__name__], rec)
