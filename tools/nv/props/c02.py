"""C02 -- shipped models evaluate their published formulas."""
import math
import re
from fractions import Fraction

import sys

import numpy as np

from .. import common, gen_all, gen_formulas

SITE = "nanite.model.model_func"


# independent closed forms, evaluated in extended precision (x87 long double,
# 64-bit mantissa: ~1e-19 relative) from the published formulas
LD = np.longdouble


def spec_value(key, sc, x):
    d = LD(sc["contact_point"]) - LD(x)
    bl = LD(sc["baseline"])
    if d <= 0:
        return bl
    pi = LD(np.pi) + LD(1.2246467991473532e-16)   # pi to long-double accuracy
    if key == "hertz_para":
        E, R, nu = (LD(sc[k]) for k in ("E", "R", "nu"))
        return LD(4) / 3 * E / (1 - nu ** 2) * np.sqrt(R) * d ** LD(1.5) + bl
    if key == "hertz_cone":
        E, al, nu = (LD(sc[k]) for k in ("E", "alpha", "nu"))
        return 2 * np.tan(al * pi / 180) / pi * E / (1 - nu ** 2) * d ** 2 + bl
    if key == "hertz_pyr3s":
        E, al, nu = (LD(sc[k]) for k in ("E", "alpha", "nu"))
        return LD(8887) / 10000 * np.tan(al * pi / 180) * E \
            / (1 - nu ** 2) * d ** 2 + bl
    if key == "sneddon_spher_approx":
        E, R, nu = (LD(sc[k]) for k in ("E", "R", "nu"))
        u = d / R
        poly = (1 - u / 10 - u ** 2 / 840 + 11 * u ** 3 / 15120
                + 1357 * u ** 4 / 6652800)
        return LD(4) / 3 * E / (1 - nu ** 2) * np.sqrt(R) * d ** LD(1.5) \
            * poly + bl
    if key == "power_layer_clifford_2009":
        ES, EL, R, nS, nL, t = (LD(sc[k]) for k in
                                ("E_S", "E_L", "R", "nu_S", "nu_L", "t"))
        a = np.sqrt(R * d)
        xi = a / t * (EL / ES) ** (LD(2) / 3) * (1 - LD(22) / 100 * nS ** 2) \
            / (1 - LD(192) / 100 * nL ** 2)
        P = LD(225) / 100
        Ee = EL + (ES - EL) * (P * xi ** LD(1.5)) / (1 + P * xi ** LD(1.5))
        return LD(4) / 3 * Ee * np.sqrt(R) * d ** LD(1.5) + bl
    raise KeyError(key)


def have_mpmath():
    return np.finfo(np.longdouble).nmant >= 63


def rnd_params(rng, mod, wide=True):
    defaults = mod.get_parameter_defaults()
    sc = {}
    for pname, p in defaults.items():
        if pname == "contact_point":
            sc[pname] = rng.uniform(-2e-6, 2e-6)
        elif pname == "baseline":
            sc[pname] = rng.choice([0.0, rng.uniform(-1e-9, 1e-9)])
        else:
            lo = p.min if math.isfinite(p.min) else p.value / 100
            hi = p.max if math.isfinite(p.max) else p.value * 100
            if pname in ("E", "E_S", "E_L") and wide:
                v = 10 ** rng.uniform(0, 5)
                v = min(v, hi) if math.isfinite(p.max) else v
            elif pname == "t":
                # (down to the lower bound of the parameter: very thin layers)
                v = 10 ** rng.uniform(-8, -5) if rng.random() < 0.6 else \
                    10 ** rng.uniform(-12, -8)
            elif pname == "R":
                v = 10 ** rng.uniform(-7, -4)
            elif pname.startswith("nu"):
                v = rng.choice([0.0, 0.3, 0.5, rng.uniform(0, 0.5)])
            elif pname == "alpha":
                v = rng.choice([lo, rng.uniform(lo, hi * 0.99), 5, 25])
            else:
                v = rng.uniform(lo, hi)
            sc[pname] = float(v)
    return sc


def rnd_abscissae(rng, sc, R=None):
    cp = sc["contact_point"]
    xs = [cp, np.nextafter(cp, 1), np.nextafter(cp, -1), cp + 1e-6,
          cp - 1e-9, cp - 1e-12]
    for _ in range(6):
        xs.append(cp - 10 ** rng.uniform(-10, -5.5))
        xs.append(cp + 10 ** rng.uniform(-10, -5.5))
    if R is not None:
        xs += [cp - R, cp - 0.5 * R, cp - 0.9 * R]
    xs = np.array(xs, dtype=float)
    # the value at a point does not depend on where it stands in the array:
    # approach order, retract order, a whole cycle, no order at all
    order = rng.choice(["as-built", "ascending", "descending", "shuffled",
                        "cycle"])
    if order == "ascending":
        xs = np.sort(xs)
    elif order == "descending":
        xs = np.sort(xs)[::-1].copy()
    elif order == "shuffled":
        xs = xs[np.array(rng.sample(range(xs.size), xs.size))]
    elif order == "cycle":
        srt = np.sort(xs)
        xs = np.concatenate([srt[::-1], srt[1:]])
    return xs


def interval_goals(run, models, rng, n_per_model):
    """certified pointwise enclosures: |m_R(theta, x) - impl| <= tol proved
    by the interval tactic for sampled (theta, x)"""
    lines = ["From Coq Require Import Reals.",
             "From Interval Require Import Tactic.",
             "From NV Require Import Base.RealExtra Gen.ModelFuncs "
             "Proofs.FormulasP.",
             "From Coq Require Import Lra.",
             "Local Open Scope R_scope.",
             "Ltac go := cbv zeta;",
             "  repeat match goal with |- context [Rlt_dec ?a ?b] =>",
             "    destruct (Rlt_dec a b) as [?H|?H]; try (exfalso; lra) end;",
             "  rewrite ?ppow_pos by (interval with (i_prec 80));",
             "  interval with (i_prec 80)."]
    n = 0
    cases = []
    for key, (tr, mod) in models.items():
        for _ in range(n_per_model):
            sc = rnd_params(rng, mod, wide=False)
            cp = sc["contact_point"]
            incontact = rng.random() < 0.8 or key.startswith("power_layer")
            x = float(cp - 10 ** rng.uniform(-9, -6)) if incontact \
                else float(cp + 10 ** rng.uniform(-9, -6))
            out = float(mod.model_func(np.array([x]), **sc)[0])
            order = [a for a in tr.args if a != "delta"] + ["delta"]
            vals = dict(sc)
            vals["delta"] = x

            def lit(v):
                fr = Fraction(float(v))
                return f"({fr.numerator} / {fr.denominator})"
            args = " ".join(lit(vals[a]) for a in order)
            tol = max(abs(out) * 1e-12, 1e-300)
            lines.append(
                f"Goal Rabs (m_{key} {args} - {lit(out)}) <= {lit(tol)}.")
            if key.startswith("power_layer"):
                lines.append("Proof. rewrite clifford_in_contact; try lra. "
                             "cbv zeta. interval with (i_prec 100). Qed.")
            else:
                lines.append(f"Proof. unfold m_{key}. go. Qed.")
            n += 1
            cases.append({"model": key, "params": sc, "delta": x,
                          "force": out})
    ok, outp = common.coq_run("c02_enclosures", "\n".join(lines) + "\n",
                              timeout=1200)
    run.obligation("certified-enclosures", ok, outp[-2500:])
    for c in cases:
        run.case(c, kind="enclosure-" + c["model"])
    return n


def docstring_constants(run, models):
    """decimal constants printed in the docstring must appear in the code"""
    for key, (tr, mod) in models.items():
        doc = mod.model_doc or ""
        src = open(mod.__file__).read().split('"""')[-1]
        for m in re.finditer(r"(?<![\w.])(0\.\d{3,})", doc):
            c = m.group(1)
            run.case({"model": key, "doc_constant": c}, kind="docstring")
            if c not in src:
                run.failing(SITE, f"docstring:{key}:{c}",
                            f"docstring of {key} prints the constant {c} "
                            "that the code does not use",
                            payload={"kind": "docstring", "model": key,
                                     "constant": c},
                            theorem="C02_formula_" + key)


def numeric_search(run, models, rng, n):
    if not have_mpmath():
        run.obligation("extended-precision-available", False,
                       "numpy.longdouble has no extended precision here")
        return
    for key, (tr, mod) in models.items():
        worst = 0.0
        for _ in range(n):
            sc = rnd_params(rng, mod)
            xs = rnd_abscissae(rng, sc, sc.get("R"))
            real = mod.model_func(xs.copy(), **sc)
            xs_before = xs.copy()
            run.case({"model": key, "params": sc, "n_abscissae": len(xs)},
                     kind="numeric-" + key)
            for xv, rv in zip(xs_before, real):
                ref = spec_value(key, sc, float(xv))
                run.count("points")
                if float(sc["contact_point"]) - float(xv) <= 0:
                    bad = float(rv) != float(sc["baseline"])
                    why = "off-contact force is not exactly the baseline"
                else:
                    scale = max(abs(ref - LD(sc["baseline"])), LD(1e-300))
                    err = abs(LD(float(rv)) - ref) / scale
                    if abs(ref - LD(sc["baseline"])) > 16 * LD(math.ulp(
                            float(rv))):
                        worst = max(worst, float(err))
                    bad = err > 1e-9 and abs(LD(float(rv)) - ref) \
                        > 4 * LD(math.ulp(float(rv)))
                    why = f"relative deviation {float(err):.3e} from the " \
                          "published closed form"
                if bad:
                    run.failing(SITE, f"{key}:{sc}:{float(xv)!r}",
                                f"{key}(delta={float(xv)!r}, {sc}) = {rv!r}:"
                                f" {why} ({ref})",
                                payload={"kind": "point", "model": key,
                                         "params": sc, "delta": float(xv)},
                                expected=str(ref), observed=repr(float(rv)),
                                theorem="C02_formula_" + key)
                    break
        run.extra.setdefault("worst_relative_deviation", {})[key] = worst


def derived_model_history(run, models):
    """a user model derived from a shipped module (its namespace copied, as
    `from nanite.model.model_x import *` does, with another model_func) is
    registered and removed again: every shipped model still evaluates its own
    function through model() and residual()"""
    import types
    from nanite import model
    for key in sorted(models):
        md = model.models_available[key]
        src = md.module
        x = np.linspace(1e-6, -1.5e-6, 9)
        p = md.get_parameter_defaults()
        p["contact_point"].set(value=2e-7)
        p["baseline"].set(value=3e-10)
        before = np.array(md.model(p, x), copy=True)
        derived = types.ModuleType("nv_derived_" + key)
        for k_, v_ in vars(src).items():
            if not k_.startswith("__"):
                setattr(derived, k_, v_)
        derived.model_key = "nv_derived_" + key
        derived.model_name = "derived " + key
        derived.model_func = lambda delta, **kw: np.zeros_like(delta) + 1.0
        run.case({"derived-model-history": key}, kind="derived-history")
        reg = None
        try:
            import warnings
            with warnings.catch_warnings():
                warnings.simplefilter("ignore")
                reg = model.register_model(derived)
        except BaseException as e:
            run.count("derived-registration-raised:" + type(e).__name__)
        finally:
            if reg is not None:
                model.deregister_model(reg)
        after = np.asarray(model.models_available[key].model(p, x))
        direct = np.asarray(src.model_func(x.copy(), **p.valuesdict()))
        if after.tobytes() != before.tobytes() or \
                after.tobytes() != direct.tobytes():
            run.failing(SITE, f"derived-history:{key}",
                        f"after a user model derived from the module of {key} "
                        "was registered and removed, model() of the shipped "
                        f"model changed (max {float(np.max(np.abs(after - before))):.3g}"
                        " N) / no longer equals its own model function",
                        payload={"kind": "rerun"},
                        theorem="C02_formula_" + key)


def constrained_params_cases(run, keys):
    """shipped models evaluated through model() / residual() with a parameter
    tied to another one by an expression, right after the constraint was set
    and after the independent parameter was changed in place: the formula is
    evaluated with the values the parameter set reports"""
    from nanite import model
    for key in sorted(keys):
        md = model.models_available[key]
        p = md.get_parameter_defaults()
        names = list(p.keys())
        ind = "E_S" if "E_S" in names else "E"
        ties = []
        if "E_L" in names:
            ties.append(("E_L", "E_S/100"))
        if "nu_L" in names:
            ties.append(("nu_L", "nu_S"))
        if not ties:
            ties.append(("baseline", f"{ind}*1e-14"))
        x = np.linspace(1e-6, -1.5e-6, 9)
        for orient in (1, -1):
            xx = x[::orient].copy()
            run.case({"constrained-params": key, "orientation": orient},
                     kind="constrained")
            try:
                p = md.get_parameter_defaults()
                p["contact_point"].set(value=1e-7)
                for dep, ex in ties:
                    p[dep].set(expr=ex)
                got1 = np.array(md.model(p, xx), copy=True)
                p[ind].set(value=float(p[ind].value) * 0.37 + 11.0)
                if "nu_S" in names:
                    p["nu_S"].set(value=0.41)
                got2 = np.array(md.model(p, xx), copy=True)
                vals = {n: float(p[n].value) for n in names}
                asc = xx[0] < xx[-1]
                inner = md.module.model_func(
                    (xx[::-1] if asc else xx).copy(), **vals)
                want2 = inner[::-1] if asc else inner
                ok = got2.tobytes() == np.asarray(want2).tobytes() \
                    and not np.array_equal(got1, got2)
            except BaseException as e:
                run.failing(SITE, f"constrained:{key}:{orient}",
                            f"raised {type(e).__name__}: {e}",
                            payload={"kind": "rerun"})
                continue
            if not ok:
                run.failing(SITE, f"constrained:{key}:{orient}",
                            f"{key}: model() with {ties} after {ind} was "
                            "changed in place differs from the model "
                            "function evaluated with the reported values "
                            f"(max {float(np.max(np.abs(got2 - want2))):.3g})",
                            payload={"kind": "rerun"},
                            theorem="C02_formula_" + key)


def partial_params_cases(run, keys):
    """parameter sets that leave out arguments with documented defaults
    (contact_point = 0, baseline = 0): model() evaluates the formula with the
    defaults for what is missing and the given values for the rest"""
    import lmfit
    from nanite import model
    for key in sorted(keys):
        md = model.models_available[key]
        full = md.get_parameter_defaults()
        names = list(full.keys())
        x = np.linspace(8e-7, -1.2e-6, 9)
        for drop in (["contact_point"], ["baseline"],
                     ["contact_point", "baseline"]):
            for orient in (1, -1):
                xx = x[::orient].copy()
                run.case({"partial-params": key, "missing": drop,
                          "orientation": orient}, kind="partial")
                fk = f"partial:{key}:{'+'.join(drop)}:{orient}"
                try:
                    p = lmfit.Parameters()
                    vals = {}
                    for n_ in names:
                        if n_ in drop:
                            continue
                        v = {"contact_point": 2e-7,
                             "baseline": 3.5e-10}.get(n_, float(full[n_].value))
                        p.add(n_, value=v)
                        vals[n_] = v
                    got = np.array(md.model(p, xx), copy=True)
                    asc = xx[0] < xx[-1]
                    inner = md.module.model_func(
                        (xx[::-1] if asc else xx).copy(), **vals)
                    want = np.asarray(inner[::-1] if asc else inner)
                    ok = got.tobytes() == want.tobytes()
                except BaseException as e:
                    run.failing(SITE, fk, f"{key} without {drop}: raised "
                                f"{type(e).__name__}: {e}",
                                payload={"kind": "rerun"})
                    continue
                if not ok:
                    run.failing(SITE, fk, f"{key}: model() with a parameter "
                                f"set that leaves out {drop} differs from "
                                "the formula with the documented defaults "
                                f"(max {float(np.max(np.abs(got - want))):.3g})",
                                payload={"kind": "rerun"},
                                theorem="C02_formula_" + key)


def result_ownership_cases(run, keys):
    """the array a caller got from model() is the caller's: scaled in place
    (say, to nN) and the model evaluated again with the same parameters and
    abscissa, the second result is the documented force again, in a new
    array"""
    from nanite import model
    for key in sorted(keys):
        md = model.models_available[key]
        for orient in (1, -1):
            x = np.linspace(8e-7, -1.2e-6, 9)[::orient].copy()
            run.case({"result-ownership": key, "orientation": orient},
                     kind="ownership")
            fk = f"ownership:{key}:{orient}"
            try:
                p = md.get_parameter_defaults()
                p["contact_point"].set(value=2e-7)
                r1 = md.model(p, x)
                want = np.array(r1, copy=True)
                r1 *= 1e9
                r1[0] = 7.0
                r2 = md.model(p, x)
                why = None
                if r2 is r1 or np.shares_memory(r1, r2):
                    why = ("the second evaluation hands out the array the "
                           "caller got (and modified) before")
                elif np.asarray(r2).tobytes() != want.tobytes():
                    why = ("the second evaluation differs from the first "
                           f"(max {float(np.max(np.abs(r2 - want))):.3g})")
            except BaseException as e:
                why = f"raised {type(e).__name__}: {e}"
            if why:
                run.failing(SITE, fk, f"{key}: model() twice with the same "
                            f"arguments, the first result scaled in place in "
                            f"between: {why}", payload={"kind": "rerun"},
                            theorem="C02_formula_" + key)


def sneddon_documented_bound(run):
    """numerical cross-check of the documented 1e-4 bound against the exact
    implicit solution (the Coq theorem C02_sneddon_series_close is the proof)"""
    from nanite.model import model_sneddon_spherical_approximation as m
    a = np.linspace(1e-6, 0.8335, 4000)
    delta = a / 2 * np.log((1 + a) / (1 - a))
    F = (1 + a * a) / 2 * np.log((1 + a) / (1 - a)) - a
    fs = m.model_func(-delta, E=1.0, R=1.0, nu=0.0, contact_point=0.0,
                      baseline=0.0)
    err = np.max(np.abs(fs - F)) / F[-1]
    run.extra["sneddon_series_max_rel_to_Fmax"] = float(err)
    run.case({"sneddon-bound": float(err)}, kind="sneddon-bound")
    if err > 1e-4:
        run.failing(SITE, "sneddon-bound",
                    f"truncated series deviates by {err:.3e} of the maximum "
                    "exact force for depths up to R (documented: 1e-4)",
                    payload={"kind": "sneddon-bound"},
                    theorem="C02_sneddon_series_close")


def check(run):
    run.sources = common.source_digests(
        ["src/nanite/model/model_hertz_paraboloidal.py",
         "src/nanite/model/model_conical_indenter.py",
         "src/nanite/model/model_hertz_three_sided_pyramid.py",
         "src/nanite/model/model_sneddon_spherical_approximation.py",
         "src/nanite/model/model_power_layer_clifford_2009.py"])
    try:
        gen_all.generate_all()
        models, trw = gen_formulas.translate_all()
        worst = gen_formulas.self_check(models, trw, n=200, seed=run.seed)
        run.extra["translator_ir_vs_source_ulps"] = worst
        run.obligation("translator-self-check",
                       all(v <= 64 for v in worst.values()), str(worst))
    except gen_formulas.TranslationError as e:
        run.obligation("translation", False,
                       f"formula body outside the translator's idiom: {e}")
        models = None
    common.prove(run, "C02")
    run.trusted = [
        "Coq 8.16.1 kernel; Reals axioms; Coq-Interval (interval tactic, "
        "primitive floats/ints inside its computations)",
        "tools/nv/gen_formulas.py: AST translator (front half validated per "
        "run by executing its IR against the source, <= 16 ulp; the IR -> "
        "Gallina printer is trusted)",
    ]
    run.assumptions = [
        "IEEE round-off is not verified: floats are related to the R-model by "
        "certified enclosures at sampled points (1e-12 relative) and by a "
        "high-precision numerical comparison",
        "decimal constants of the source are read as the rationals they spell",
    ]
    rng = run.rng
    if models is None:
        # the translator does not know the idiom the body is written in now:
        # the theorems cannot be re-checked, but the search for a failing
        # input (published closed forms in extended precision) still runs
        import importlib
        real = {}
        for key, modname in gen_formulas.SHIPPED:
            try:
                real[key] = (None, importlib.import_module(
                    "nanite.model." + modname))
            except BaseException:
                pass
        docstring_constants(run, real)
        numeric_search(run, real, rng, 40 if run.tier == "quick" else 1500)
    else:
        interval_goals(run, models, rng, 12 if run.tier == "quick" else 150)
        docstring_constants(run, models)
        numeric_search(run, models, rng, 40 if run.tier == "quick" else 1500)
    sneddon_documented_bound(run)
    try:
        constrained_params_cases(run, dict(gen_formulas.SHIPPED))
        partial_params_cases(run, dict(gen_formulas.SHIPPED))
        result_ownership_cases(run, dict(gen_formulas.SHIPPED))
    except BaseException as e:
        run.obligation("constrained-params-completed", False,
                       f"{type(e).__name__}: {e}")
    try:
        derived_model_history(run, dict(gen_formulas.SHIPPED))
    except BaseException as e:
        run.obligation("derived-model-history-completed", False,
                       f"{type(e).__name__}: {e}")
    run.rule = ("per shipped model: random parameter vectors in bounds "
                "(moduli over 5 decades) x abscissae at, one ulp around, near "
                "and far from the contact point and up to depth R: compared "
                "with the published closed form in 200-bit arithmetic; "
                "sampled points certified by interval arithmetic against the "
                "generated R function; distinct by (model, params, delta)")


def replay(rec):
    pl = rec.get("payload") or {}
    if pl.get("kind") != "point":
        return common.replay_by_rerun(sys.modules[__name__], rec)
    import importlib
    modname = dict(gen_formulas.SHIPPED)[pl["model"]]
    mod = importlib.import_module("nanite.model." + modname)
    x = pl["delta"]
    rv = float(mod.model_func(np.array([x]), **pl["params"])[0])
    ref = spec_value(pl["model"], pl["params"], x)
    return abs(LD(rv) - ref) <= 1e-9 * max(abs(ref), LD(1e-300))
