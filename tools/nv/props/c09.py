"""C09 -- quality rating is total, deterministic, in range, tied to the
current fit."""
import copy
import json
import os
import subprocess
import sys
import warnings

import numpy as np

from .. import common, gen_all, curves, m1
from ..pyval import canon

SITE = "nanite.indent.Indentation.rate_quality"
TREES_AVG = ["Extra Trees", "Random Forest", "Decision Tree"]


def states(cols):
    """named curve states reachable by preprocessing / fitting / edits"""
    pipe = ["compute_tip_position", "correct_force_offset",
            "correct_tip_offset"]

    def fresh():
        return curves.make_indentation(cols)

    def pre():
        i = fresh()
        i.apply_preprocessing(pipe)
        return i

    def fitted():
        i = pre()
        i.fit_model(model_key="hertz_para")
        return i

    def edited():
        i = fitted()
        i.fit_properties["weight_cp"] = 3e-6
        return i

    def failed():
        i = pre()
        i.fit_model(range_type="relative cp", range_x=[1e-3, 2e-3])
        return i

    def retract():
        i = pre()
        i.fit_model(segment=1)
        return i

    def refit():
        i = fitted()
        i.fit_model(weight_cp=0)
        return i

    def cone():
        i = pre()
        i.fit_model(model_key="hertz_cone")
        return i

    def rejected():
        i = fitted()
        try:
            i.apply_preprocessing(["correct_tip_offset"])
        except ValueError:
            pass
        return i
    return {"fresh": fresh, "preprocessed": pre, "fitted": fitted,
            "edited-after-fit": edited, "fit-unsuccessful": failed,
            "fitted-retract": retract, "refitted": refit,
            "fitted-cone": cone, "after-rejected-request": rejected}


def standalone(idnt, regressor, training_set="zef18", names=None, lda=None):
    from nanite.rate import get_rater
    r = get_rater(regressor=regressor, training_set=training_set, names=names,
                  lda=lda)
    return float(r.rate(datasets=idnt)[0])


def independent(idnt, regressor, training_set="zef18", names=None, lda=None):
    """a rater assembled from the documented pieces WITHOUT get_rater (so a
    cache or shortcut inside get_rater cannot hide behind itself)"""
    from nanite.rate.rater import IndentationRater
    from nanite.rate.regressors import reg_dict
    path = IndentationRater.get_training_set_path(label=training_set)
    ts = IndentationRater.load_training_set(path=path, names=names)
    cl, kw = reg_dict[regressor]
    r = IndentationRater(regressor=cl(**dict(kw)), training_set=ts,
                         names=names, lda=lda)
    return float(r.rate(datasets=idnt)[0])


def lda_sequences(run, cols, regs):
    """the same curve rated with the three LDA settings in different orders
    (and feature subsets): every value must equal the independently
    assembled rater's, whatever was rated before in this process"""
    names = ["feat_con_apr_sum", "feat_con_idt_sum", "feat_con_apr_size",
             "feat_con_bln_slope", "feat_con_idt_maxima_75perc"]
    expect = {}

    def want(reg, lda, nm):
        k = (reg, lda, tuple(nm) if nm else None)
        if k not in expect:
            expect[k] = independent(states(cols)["fitted"](), reg, lda=lda,
                                    names=list(nm) if nm else None)
        return expect[k]
    for reg in regs:
        for order in ([False, None, True], [None, False], [True, None]):
            for nm in (None, names):
                idnt = states(cols)["fitted"]()
                for lda in order:
                    key = f"lda-sequence:{reg}:{order}:{lda}:{bool(nm)}"
                    run.case({"scenario": "lda-sequence", "regressor": reg,
                              "order": order, "lda": lda,
                              "subset": bool(nm)}, kind="lda-sequence")
                    try:
                        v = idnt.rate_quality(regressor=reg, lda=lda,
                                              names=list(nm) if nm else None)
                        w = want(reg, lda, nm)
                    except BaseException as e:
                        run.failing(SITE, key, f"rating with {reg}, lda={lda}"
                                    f" raised {type(e).__name__}: {e}",
                                    payload={"kind": "lda", "regressor": reg,
                                             "order": order})
                        continue
                    if v != w:
                        run.failing(
                            SITE, key, f"rate_quality('{reg}', lda={lda}, "
                            f"subset={bool(nm)}) after {order} returned {v} "
                            f"but an independently assembled rater gives {w}",
                            payload={"kind": "lda", "regressor": reg,
                                     "order": order},
                            theorem="C09_cache_hit_needs_equal_key")


def rating_histories(run, cols, regs):
    """a curve is rated, then its fit state changes WITHOUT a new fit (a
    setting edited, a rejected fit request, the initial parameters of another
    model requested) or with one (refit, new preprocessing), then it is rated
    again with the same arguments: the value must be the standalone rater's
    for the state the curve is in now (-1 without a successful current fit)"""
    st = states(cols)

    def edit(i):
        i.fit_properties["weight_cp"] = 5e-7

    def rejected(i):
        try:
            i.fit_model(range_type="no such type")
        except BaseException:
            pass

    def other_model(i):
        i.get_initial_fit_parameters(model_key="hertz_cone")

    def refit(i):
        i.fit_model(weight_cp=0, range_x=[-2e-6, 2e-6])

    def repre(i):
        i.apply_preprocessing(["compute_tip_position", "correct_tip_offset"])

    def unsuccessful(i):
        i.fit_model(range_type="relative cp", range_x=[1e-3, 2e-3])
    moves = {"setting-edited": edit, "fit-request-rejected": rejected,
             "initial-parameters-of-another-model": other_model,
             "refit": refit, "re-preprocessed": repre,
             "unsuccessful-refit": unsuccessful}
    for reg in regs:
        if reg.lower() == "none":
            continue
        for mname, mv in moves.items():
            key = f"rating-history:{reg}:{mname}"
            run.case({"scenario": "rating-history", "regressor": reg,
                      "move": mname}, kind="rating-history")
            try:
                with warnings.catch_warnings():
                    warnings.simplefilter("ignore")
                    i = st["fitted"]()
                    v0 = i.rate_quality(regressor=reg)
                    mv(i)
                    v1 = i.rate_quality(regressor=reg)
                    w = standalone(i, reg)
            except BaseException as e:
                run.failing(SITE, key, f"{mname} with {reg} raised "
                            f"{type(e).__name__}: {e}",
                            payload={"kind": "rerun"})
                continue
            fp = i.fit_properties
            ok_fit = bool(fp.get("success", False)) and "hash" in fp
            why = None
            if not ok_fit and v1 != -1:
                why = (f"no successful current fit after '{mname}' but the "
                       f"rating is {v1} (before the move: {v0})")
            elif v1 != w and not (np.isnan(v1) and np.isnan(w)):
                why = (f"after '{mname}' rate_quality returns {v1}, the "
                       f"standalone rater {w} for the current state (before "
                       f"the move: {v0})")
            if why:
                run.failing(SITE, key, f"{reg}: {why}",
                            payload={"kind": "rerun"},
                            theorem="C09_cache_hit_needs_equal_key")


def selection_sequences(run, small_cols, big_cols):
    """one curve rated several times with feature selections that share
    their continuous features but differ in the binary exclusion criteria
    (and the other way round), on a curve that fails a criterion (fewer than
    600 approach points) and on one that passes: every value is the
    standalone rater's for that selection"""
    from nanite.rate import IndentationRater
    con = IndentationRater.get_feature_names(which_type="continuous")
    bins = IndentationRater.get_feature_names(which_type="binary")
    sels = [con + [b_ for b_ in bins if "size" in b_], list(con),
            con + bins, con[:6] + [b_ for b_ in bins if "size" in b_],
            con[:6], None, list(con)]
    for cname, cols in (("short-approach", small_cols),
                        ("long-approach", big_cols)):
        for reg in ("Decision Tree", "SVR (linear kernel)"):
            for order in (list(range(len(sels))),
                          list(range(len(sels)))[::-1]):
                idnt = states(cols)["fitted"]()
                for j in order:
                    nm = sels[j]
                    key = f"selection-sequence:{cname}:{reg}:{order[0]}:{j}"
                    run.case({"scenario": "selection-sequence",
                              "curve": cname, "regressor": reg,
                              "selection": j, "first": order[0]},
                             kind="selection-sequence")
                    try:
                        with warnings.catch_warnings():
                            warnings.simplefilter("ignore")
                            v = idnt.rate_quality(
                                regressor=reg,
                                names=None if nm is None else list(nm))
                            w = standalone(
                                states(cols)["fitted"](), reg,
                                names=None if nm is None else list(nm))
                    except BaseException as e:
                        run.failing(SITE, key, f"selection {j} with {reg} "
                                    f"raised {type(e).__name__}: {e}",
                                    payload={"kind": "rerun"})
                        continue
                    if v != w and not (np.isnan(v) and np.isnan(w)):
                        run.failing(
                            SITE, key, f"{cname} curve, {reg}: selection "
                            f"{j} ({'all' if nm is None else len(nm)} "
                            f"features) rated after {order[:order.index(j)]} "
                            f"on the same curve gives {v}, the standalone "
                            f"rater {w}", payload={"kind": "rerun"},
                            theorem="C09_cache_hit_needs_equal_key")


def unfitted_history_cases(run, small_cols, big_cols):
    """curves that are never fitted: rated untouched, then preprocessed (the
    size criterion becomes defined), rated again, preprocessed differently,
    rated again -- every value is the standalone rater's for the curve as it
    is now (0 when the criterion fails, -1 while nothing is defined)"""
    pipes = [["compute_tip_position", "correct_force_offset"],
             ["compute_tip_position"],
             ["compute_tip_position", "correct_force_offset",
              "correct_tip_offset"]]
    for cname, cols in (("short-approach", small_cols),
                        ("long-approach", big_cols)):
        for reg in ("Decision Tree", "Extra Trees"):
            idnt = curves.make_indentation(cols)
            hist = []
            for step in [None] + pipes:
                key = f"unfitted-history:{cname}:{reg}:{len(hist)}"
                run.case({"scenario": "unfitted-history", "curve": cname,
                          "regressor": reg, "step": len(hist)},
                         kind="unfitted-history")
                try:
                    with warnings.catch_warnings():
                        warnings.simplefilter("ignore")
                        if step is not None:
                            idnt.apply_preprocessing(list(step))
                        hist.append(step)
                        v = idnt.rate_quality(regressor=reg)
                        twin = curves.make_indentation(cols)
                        if step is not None:
                            twin.apply_preprocessing(list(step))
                        w = standalone(twin, reg)
                        w2 = twin.rate_quality(regressor=reg)
                except BaseException as e:
                    run.failing(SITE, key, f"raised {type(e).__name__}: {e}",
                                payload={"kind": "rerun"})
                    continue
                if not (v == w == w2 or (np.isnan(v) and np.isnan(w))):
                    run.failing(
                        SITE, key, f"{cname} curve, never fitted, {reg}: "
                        f"after {hist} rate_quality returns {v}; a fresh "
                        f"curve in the same state {w2}, the standalone rater "
                        f"{w}", payload={"kind": "rerun"},
                        theorem="C09_cache_reset_on_preprocessing")


def working_directory_cases(run, cols):
    """the shipped training set is found by its label wherever the process
    runs: in a working directory that holds a folder named like the label
    (with other contents) the rating is what it is anywhere else"""
    import os
    import shutil
    from nanite.rate import IndentationRater
    src = IndentationRater.get_training_set_path("zef18")
    d = common.scratch() / "c09-cwd"
    shutil.rmtree(d, ignore_errors=True)
    (d / "zef18").mkdir(parents=True)
    for f in sorted(os.listdir(src)):
        if f.startswith("train_"):
            a = np.loadtxt(os.path.join(src, f))
            if "response" in f:
                a = 10 - a
            np.savetxt(d / "zef18" / f, a)
    old = os.getcwd()
    for reg in ("Decision Tree", "Extra Trees"):
        run.case({"scenario": "working-directory", "regressor": reg},
                 kind="working-directory")
        key = f"working-directory:{reg}"
        try:
            with warnings.catch_warnings():
                warnings.simplefilter("ignore")
                want = states(cols)["fitted"]().rate_quality(regressor=reg)
                os.chdir(d)
                try:
                    got = states(cols)["fitted"]().rate_quality(
                        regressor=reg)
                    got2 = standalone(states(cols)["fitted"](), reg)
                finally:
                    os.chdir(old)
            why = None
            if got != want or got2 != want:
                why = (f"rating {got} (standalone rater {got2}) in a working "
                       f"directory that holds a folder 'zef18', {want} "
                       "elsewhere")
        except BaseException as e:
            os.chdir(old)
            why = f"raised {type(e).__name__}: {e}"
        if why:
            run.failing(SITE, key, f"{reg}: {why}", payload={"kind": "rerun"},
                        theorem="C09_decision")
    shutil.rmtree(d, ignore_errors=True)


def memory_training_cases(run, cols):
    """an in-memory training set (X, y) used for several trainings in one
    process with a regressor that standardises its input: every fresh, equally
    fitted curve gets the same rating, it equals the rating with the shipped
    label the arrays were loaded from, and the caller's arrays stay as they
    were"""
    from nanite.rate.rater import IndentationRater
    st = states(cols)
    for reg in ["SVR (RBF kernel)", "SVR (linear kernel)"]:
        key = f"memory-training:{reg}"
        run.case({"scenario": "memory-training", "regressor": reg},
                 kind="memory-training")
        try:
            with warnings.catch_warnings():
                warnings.simplefilter("ignore")
                path = IndentationRater.get_training_set_path(label="zef18")
                X, y = IndentationRater.load_training_set(path=path)
                X0, y0 = X.copy(), y.copy()
                vals = [st["fitted"]().rate_quality(regressor=reg,
                                                    training_set=(X, y))
                        for _ in range(3)]
                ref = st["fitted"]().rate_quality(regressor=reg,
                                                  training_set="zef18")
        except BaseException as e:
            run.failing(SITE, key, f"raised {type(e).__name__}: {e}",
                        payload={"kind": "rerun"})
            continue
        why = None
        if not (np.array_equal(X, X0, equal_nan=True)
                and np.array_equal(y, y0, equal_nan=True)):
            why = ("the caller's training arrays were modified (max change "
                   f"{float(np.nanmax(np.abs(X - X0))):.3g})")
        elif len(set(vals)) != 1:
            why = f"equally fitted fresh curves are rated {vals}"
        elif vals[0] != ref:
            why = (f"in-memory copy of zef18 rates {vals[0]}, the label "
                   f"'zef18' {ref}")
        if why:
            run.failing(SITE, key, f"{reg} with an in-memory training set: "
                        + why, payload={"kind": "rerun"},
                        theorem="C09_cache_hit_needs_equal_key")


def edited_loaded_arrays_cases(run, cols):
    """the arrays handed out by load_training_set belong to the caller: after
    they were edited in place (relabelled responses, scaled samples) the label
    'zef18' still denotes the shipped data -- later ratings by fresh objects
    and a standalone rater equal the earlier ones, and loading again returns
    the shipped values"""
    from nanite.rate.rater import IndentationRater
    st = states(cols)
    for reg in ["Extra Trees", "SVR (RBF kernel)"]:
        for names in (None, ["feat_con_apr_flatness", "feat_con_bln_slope",
                             "feat_bin_size"]):
            key = f"edited-loaded-arrays:{reg}:{'all' if names is None else 'sub'}"
            run.case({"scenario": "edited-loaded-arrays", "regressor": reg,
                      "names": names}, kind="edited-loaded-arrays")
            try:
                with warnings.catch_warnings():
                    warnings.simplefilter("ignore")
                    kw = {} if names is None else {"names": names}
                    ref = st["fitted"]().rate_quality(regressor=reg, **kw)
                    X, y = IndentationRater.load_training_set(**kw)
                    X0, y0 = X.copy(), y.copy()
                    y[:] = np.where(y > 5, 10, 0)
                    X *= 3.0
                    again = st["fitted"]().rate_quality(regressor=reg, **kw)
                    alone = standalone(st["fitted"](), reg, names=names)
                    X1, y1 = IndentationRater.load_training_set(**kw)
            except BaseException as e:
                run.failing(SITE, key, f"raised {type(e).__name__}: {e}",
                            payload={"kind": "rerun"})
                continue
            why = None
            if not (np.array_equal(X1, X0, equal_nan=True)
                    and np.array_equal(y1, y0, equal_nan=True)):
                why = ("after the caller edited the arrays it was given, "
                       "load_training_set returns the edited values")
            elif not (again == ref == alone):
                why = (f"rating before the edit {ref}, by a fresh object "
                       f"afterwards {again}, standalone {alone}")
            if why:
                run.failing(SITE, key, f"{reg}: " + why,
                            payload={"kind": "rerun"},
                            theorem="C09_cache_hit_needs_equal_key")


def failed_request_cases(run, cols):
    """a rating request that raises (unknown regressor, training set
    directory that does not exist) repeated with identical arguments: it
    raises again, it never returns a value; and a successful rating afterwards
    is the standalone rater's"""
    import pathlib
    st = states(cols)
    nowhere = pathlib.Path(common.scratch()) / "no-such-training-set"
    for what, kw in [("unknown regressor", dict(regressor="no such regressor")),
                     ("missing training set directory",
                      dict(regressor="Decision Tree",
                           training_set=nowhere))]:
        i = st["fitted"]()
        key = f"failed-request:{what}"
        run.case({"scenario": "failed-request", "what": what},
                 kind="failed-request")
        outs = []
        for _ in range(2):
            try:
                with warnings.catch_warnings():
                    warnings.simplefilter("ignore")
                    outs.append(("value", i.rate_quality(**kw)))
            except BaseException as e:
                outs.append(("raised", type(e).__name__))
        try:
            with warnings.catch_warnings():
                warnings.simplefilter("ignore")
                after = i.rate_quality(regressor="Decision Tree")
                want = standalone(st["fitted"](), "Decision Tree")
        except BaseException as e:
            after, want = f"{type(e).__name__}: {e}", None
        if outs[0] != outs[1] or outs[0][0] != "raised" or after != want:
            run.failing(SITE, key, f"{what}: first call {outs[0]}, identical "
                        f"second call {outs[1]}; a valid rating afterwards "
                        f"gives {after!r} (standalone rater {want!r})",
                        payload={"kind": "rerun"},
                        theorem="C09_cache_hit_needs_equal_key")


def override_cases(run, cols):
    """get_rater(..., **overrides) with other hyper-parameters: later ratings
    with the named regressor are those of its documented defaults"""
    import copy as _copy
    from nanite.rate import get_rater
    from nanite.rate.regressors import reg_dict
    st = states(cols)
    for reg, over in [("Extra Trees", dict(n_estimators=3, max_depth=2,
                                           random_state=7)),
                      ("Decision Tree", dict(max_depth=1, random_state=3))]:
        key = f"overrides:{reg}"
        run.case({"scenario": "overrides", "regressor": reg},
                 kind="overrides")
        try:
            with warnings.catch_warnings():
                warnings.simplefilter("ignore")
                defaults = _copy.deepcopy(reg_dict[reg][1])
                v0 = st["fitted"]().rate_quality(regressor=reg)
                get_rater(reg, training_set="zef18", **over)
                v1 = st["fitted"]().rate_quality(regressor=reg)
                now = reg_dict[reg][1]
        except BaseException as e:
            run.failing(SITE, key, f"raised {type(e).__name__}: {e}",
                        payload={"kind": "rerun"})
            continue
        if v0 != v1 or now != defaults:
            run.failing(SITE, key, f"{reg}: rating {v0} before and {v1} after "
                        f"somebody called get_rater with {over}; default "
                        f"hyper-parameters now {now}",
                        payload={"kind": "rerun"},
                        theorem="C09_cache_hit_needs_equal_key")


def real_oracle(run, regs, cols, big_cols):
    for sname, mk in states(cols).items():
        for reg in regs:
            idnt = mk()
            key = f"state:{sname}:{reg}"
            payload = {"kind": "state", "state": sname, "regressor": reg}
            run.case({"state": sname, "regressor": reg}, kind="real-rater")
            try:
                v1 = idnt.rate_quality(regressor=reg)
                v2 = idnt.rate_quality(regressor=reg)
            except BaseException as e:
                if isinstance(e, (KeyboardInterrupt, SystemExit)):
                    raise
                run.failing(SITE, key, f"rate_quality raised "
                            f"{type(e).__name__}: {e} in state '{sname}' "
                            f"with regressor '{reg}'", payload=payload,
                            theorem="C09 (total)")
                continue
            fp = idnt.fit_properties
            ok_fit = bool(fp.get("success", False)) and "hash" in fp
            why = None
            if not (v1 == v2 or (np.isnan(v1) and np.isnan(v2))):
                why = f"repeated call differs: {v1} vs {v2}"
            elif reg.lower() == "none" and v1 != -1:
                why = f"pseudo-regressor none returned {v1}"
            elif not ok_fit and v1 not in (-1, 0):
                why = f"no successful current fit but rating {v1}"
            elif ok_fit and reg in TREES_AVG and v1 not in (-1, 0) \
                    and not (0 <= v1 <= 10):
                why = f"rating {v1} outside [0, 10]"
            if why is None and reg.lower() != "none":
                # the decision order: a failed binary criterion gives 0, else
                # an undefined continuous feature gives -1, else the prediction
                from nanite.rate.features import IndentationFeatures as IFt
                import warnings as _w
                with _w.catch_warnings():
                    _w.simplefilter("ignore")
                    fb = IFt.compute_features(mk(), which_type="binary")
                    fc = IFt.compute_features(mk(), which_type="continuous")
                if np.any(fb == 0):
                    if v1 != 0:
                        why = (f"a binary criterion fails (features {fb}) "
                               f"but the rating is {v1}, not 0")
                elif np.any(np.isnan(fc)):
                    if v1 != -1:
                        why = (f"a continuous feature is undefined but the "
                               f"rating is {v1}, not -1")
                elif v1 in (-1, 0):
                    why = (f"all criteria pass and all features are defined "
                           f"but the rating is {v1}")
            if why is None and reg.lower() != "none":
                try:
                    v3 = standalone(mk(), reg)
                    if v3 != v1:
                        why = f"rating {v1} but standalone rater gives {v3}"
                    v4 = independent(mk(), reg)
                    if why is None and v4 != v1:
                        why = (f"rating {v1} but an independently assembled "
                               f"rater gives {v4}")
                except BaseException as e:
                    why = f"standalone rater raised {type(e).__name__}: {e}"
            if why:
                run.failing(SITE, key, f"state '{sname}', regressor '{reg}': "
                            + why, payload=payload, observed=why,
                            theorem="C09_decision / C09_avg_in_range")
    # cache follows the fit: rate, refit with other settings, rate again
    idnt = states(big_cols)["fitted"]()
    r1 = idnt.rate_quality(regressor="Extra Trees")
    idnt.fit_model(weight_cp=0, range_x=[-1e-6, 1e-6])
    r2 = idnt.rate_quality(regressor="Extra Trees")
    fresh = states(big_cols)["preprocessed"]()
    fresh.fit_model(model_key="hertz_para", weight_cp=0,
                    range_x=[-1e-6, 1e-6])
    r3 = standalone(fresh, "Extra Trees")
    run.case({"scenario": "rate-refit-rate", "values": [r1, r2, r3]},
             kind="real-rater")
    if r2 != r3:
        run.failing(SITE, "scenario:rate-refit-rate",
                    f"after a refit the cached rating {r2} is returned "
                    f"instead of {r3}", payload={"kind": "scenario",
                                                 "name": "rate-refit-rate"},
                    theorem="C09_cache_hit_needs_equal_key")
    # names edited in place / training set passed as equal arrays
    idnt = states(big_cols)["fitted"]()
    names = ["feat_con_apr_sum", "feat_con_idt_sum", "feat_con_apr_size",
             "feat_con_bln_slope"]
    try:
        a = idnt.rate_quality(regressor="Extra Trees", names=names)
        names.pop()
        b = idnt.rate_quality(regressor="Extra Trees", names=names)
        c = standalone(states(big_cols)["fitted"](), "Extra Trees",
                       names=list(names))
        ok = (b == c)
        detail = f"{b} vs fresh {c}"
        from nanite.rate import IndentationRater
        X, y = IndentationRater.load_training_set(names=names)
        d = idnt.rate_quality(regressor="Extra Trees",
                              training_set=(X, y), names=names)
        e = idnt.rate_quality(regressor="Extra Trees",
                              training_set=(X.copy(), y.copy()), names=names)
        ok = ok and d == e
        detail += f"; in-memory {d} vs {e}"
    except BaseException as ex:
        ok = False
        detail = f"raised {type(ex).__name__}: {ex}"
    run.case({"scenario": "names-in-place+tuple-ts"}, kind="real-rater")
    return ok, detail


SUBPROC = r"""
import sys, json, warnings
warnings.simplefilter("ignore")
sys.path.insert(0, %(tools)r)
from nv import curves, m1
from nv.props import c09
cols = m1.small_curve(31, n_app=700, n_ret=200)
i = c09.states(cols)["fitted"]()
print(json.dumps([i.rate_quality(regressor=r) for r in %(regs)r]))
"""


def check(run):
    run.sources = common.source_digests(
        ["src/nanite/indent.py", "src/nanite/rate/rater.py",
         "src/nanite/rate/features.py", "src/nanite/rate/regressors.py"])
    gen_all.generate_all()
    common.prove(run, "C09", extra_targets=["Model/CurveEq.vo"])
    run.trusted = [
        "Coq 8.16.1 kernel + vm_compute; Reals axioms for C09_avg_in_range",
        "hand-written model coq/Model/Curve.v (rate_quality) and "
        "coq/Model/Rater.v tied by stepwise correspondence (stub rater) and "
        "by comparison with the standalone rater (real regressors)",
    ]
    run.assumptions = [
        "scikit-learn's Extra Trees / Random Forest / Decision Tree predict "
        "weighted means of training responses (hypothesis of "
        "C09_avg_in_range; exercised, not proved)",
        "shipped training responses lie in [0, 10] (checked at run time)",
        "fixed random_state makes training deterministic",
    ]
    from nanite.rate import IndentationRater
    X, y = IndentationRater.load_training_set()
    run.obligation("training-responses-in-[0,10]",
                   bool(np.all((y >= 0) & (y <= 10))),
                   f"min {y.min()} max {y.max()}")
    # 1. cache logic: stepwise correspondence with a stub rater
    from .c03 import explore
    w = {"ApplyPre": 2, "FitModel": 4, "SetFP": 2, "Rate": 7,
         "EModMinDelta": 0.1, "GetInit": 0.3}
    explore(run, 25 if run.tier == "quick" else 300, "c09_hist", weights=w,
            seed_off=2000, oracle=False)
    # 2. real raters on reachable states
    regs = ["Extra Trees", "none"] if run.tier == "quick" else \
        ["Extra Trees", "none", "NONE", "Decision Tree", "Random Forest",
         "AdaBoost", "Gradient Tree Boosting", "SVR (linear kernel)",
         "SVR (RBF kernel)"]
    cols = m1.small_curve(30)
    big = m1.small_curve(31, n_app=700, n_ret=200)
    ok, detail = real_oracle(run, regs, big if run.tier != "quick" else cols,
                             big)
    lda_sequences(run, big, ["SVR (linear kernel)", "SVR (RBF kernel)",
                             "Decision Tree"] if run.tier == "quick" else
                  ["SVR (linear kernel)", "SVR (RBF kernel)", "Decision Tree",
                   "Extra Trees", "AdaBoost"])
    selection_sequences(run, cols, big)
    unfitted_history_cases(run, cols, big)
    working_directory_cases(run, big)
    memory_training_cases(run, big)
    edited_loaded_arrays_cases(run, big)
    override_cases(run, big)
    failed_request_cases(run, big)
    rating_histories(run, big, ["Decision Tree", "Extra Trees"]
                     if run.tier == "quick" else
                     ["Decision Tree", "Extra Trees", "SVR (linear kernel)"])
    fixed_ids = [k["id"] for k in run.known if k.get("status") == "fixed"
                 and k["id"] == "C09/cache-by-reference"]
    for fid in fixed_ids:
        run.fixed_must_pass(fid, ok, detail)
    if not ok and not fixed_ids:
        run.failing(SITE, "scenario:names-in-place", detail)
    # 3. other processes
    nproc = 1 if run.tier == "quick" else 3
    here = [states(big)["fitted"]().rate_quality(regressor=r)
            for r in ["Extra Trees"]]
    for i in range(nproc):
        env = dict(os.environ)
        env["PYTHONHASHSEED"] = str(i + 1)
        r = subprocess.run([sys.executable, "-W", "ignore", "-c", SUBPROC % {
            "tools": str(common.VERIF / "tools"), "regs": ["Extra Trees"]}],
            env=env, capture_output=True, text=True, timeout=600)
        if r.returncode != 0:
            run.obligation("cross-process-run", False, r.stderr[-1500:])
            break
        other = json.loads(r.stdout.strip().splitlines()[-1])
        run.case({"process": i, "ratings": other}, kind="cross-process")
        if other != here:
            run.failing(SITE, "cross-process", f"rating differs across "
                        f"processes: {here} vs {other}",
                        payload={"kind": "cross-process"})
    run.rule = ("named curve states (fresh, preprocessed, fitted, edited, "
                "unsuccessful, retract, refitted, other model, after a "
                "rejected request) x regressors with the real raters, compared "
                "with the standalone rater; cache scenarios; random histories "
                "with a stub rater compared stepwise with the Coq model; "
                "distinct by (state, regressor) / last four operations")


def replay(rec):
    pl = rec.get("payload") or {}
    if pl.get("kind") != "state":
        return common.replay_by_rerun(sys.modules[__name__], rec)
    cols = m1.small_curve(30)
    idnt = states(cols)[pl["state"]]()
    try:
        idnt.rate_quality(regressor=pl["regressor"])
    except BaseException:
        return False
    return common.replay_by_rerun(sys.modules[__name__], rec)
