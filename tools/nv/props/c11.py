"""C11 -- the geometrical correction factor rescales the modulus only."""
import copy
import math
import warnings

import sys

import numpy as np

from .. import common, gen_all, gen_formulas, curves, fits

SITE = "nanite.fit.IndentationFitter._fit"


def fit_k(cols, mk, k, range_type, range_x, segment, weight_cp, cp0,
          edelta=False, ns=8, E0=None, fix_cp=False, cp_bounds=None):
    from nanite import model
    idnt = curves.make_indentation(cols)
    p = model.models_available[mk].get_parameter_defaults()
    p["contact_point"].set(value=cp0)
    if fix_cp:
        p["contact_point"].set(vary=False)
    if cp_bounds:
        p["contact_point"].set(min=cp_bounds[0], max=cp_bounds[1])
    # corresponding starting point of the equivalent problem
    p["E"].set(value=float(E0 if E0 is not None else p["E"].value)
               * k ** (-fits.POWER[mk]))
    kw = dict(model_key=mk, params_initial=p, gcf_k=k, range_type=range_type,
              range_x=range_x, segment=segment, weight_cp=weight_cp)
    if edelta:
        kw.update(optimal_fit_edelta=True, optimal_fit_num_samples=ns)
    with fits.MinimizeCapture() as cap, warnings.catch_warnings():
        warnings.simplefilter("ignore")
        idnt.fit_model(**kw)
    return idnt, cap.calls, p


def one_case(run, cfg):
    """fit the curve described by cfg with k and with 1 and compare"""
    mk, k, segment, rtype = (cfg["model"], cfg["k"], cfg["segment"],
                             cfg["range_type"])
    rx, noise, weight, cp0 = (cfg["range_x"], cfg["noise"], cfg["weight_cp"],
                              cfg["cp0"])
    true, E0, i = cfg["true"], cfg["E0"], cfg["seed"]
    p = fits.POWER[mk]
    cols = fits.model_curve(mk, true, n_app=150, n_ret=70)
    if noise:
        amp = noise * float(np.max(np.abs(cols["force"])))
        cols = fits.model_curve(mk, true, n_app=150, n_ret=70, noise=amp,
                                rng=np.random.default_rng(i))
    if True:
        key = "cfg:" + common.sha(cfg)[:16]
        payload = {"kind": "cfg", "cfg": cfg}
        try:
            args = (cols, mk)
            kws = dict(range_type="absolute" if rtype == "plateau" else rtype,
                       range_x=rx, segment=segment, weight_cp=weight, cp0=cp0,
                       edelta=(rtype == "plateau"), E0=E0,
                       fix_cp=bool(cfg.get("fix_cp")),
                       cp_bounds=cfg.get("cp_bounds"))
            ik, ck, pk = fit_k(*args, k=k, **kws)
            i1, c1, p1 = fit_k(*args, k=1.0, **kws)
        except BaseException as e:
            run.failing(SITE, key, f"{cfg}: raised {type(e).__name__}: {e}",
                        payload=payload)
            return
        run.case(cfg, kind=f"{rtype}-{'noisy' if noise else 'clean'}")
        fk, f1 = ik.fit_properties, i1.fit_properties
        if not (fk.get("success") and f1.get("success")):
            return

        def fail(why, thm="C11_objective_equiv_*"):
            run.failing(SITE, key, f"{cfg}: {why}", payload=payload,
                        observed=why, theorem=thm)
        # the caller's initial parameters are untouched and every pass is
        # started from k * cp0 (stored guess in measured units)
        if float(pk["contact_point"].value) != cp0:
            fail("the caller's initial contact point was modified",
                 "C10 / C11 (initial guess units)")
        if rtype != "plateau" or True:
            bad = [j for j, c in enumerate(ck) if c["cp_in"] != cp0 * k]
            if bad:
                fail(f"optimisation pass {bad[0]} of {len(ck)} was started "
                     f"from {ck[bad[0]]['cp_in']!r}, not k*cp0 = {cp0 * k!r}",
                     "C11 (initial guess in measured units for every pass)")
        if len(ck) != len(c1):
            fail(f"{len(ck)} optimisation passes with k = {k}, {len(c1)} with "
                 "k = 1", "C11 (initial guess in measured units for every "
                 "pass)")
        tol = 1e-6 if not noise else 5e-3
        pfk, pf1 = fk["params_fitted"], f1["params_fitted"]
        if cfg.get("fix_cp"):
            got = float(pfk["contact_point"].value)
            if not math.isclose(got, cp0, rel_tol=4e-16, abs_tol=0):
                fail(f"a contact point held fixed at {cp0!r} is reported as "
                     f"{got!r} with k = {k}", "C11_unscale / "
                     "C04_fixed_contact_point_kept")
        if rtype == "plateau":
            ek = np.asarray(fk["optimal_fit_E_array"])
            e1 = np.asarray(f1["optimal_fit_E_array"]) * k ** (-p)
            dk = np.asarray(fk["optimal_fit_delta_array"])
            d1 = np.asarray(f1["optimal_fit_delta_array"])
            if dk.shape != d1.shape or not np.allclose(dk, d1, rtol=1e-12,
                                                       atol=0):
                fail("the scanned depths (measured units) differ between k "
                     "and 1")
            half = max(2, ek.size // 2)      # deep, well-conditioned half
            if not noise and np.max(np.abs(ek[:half] / e1[:half] - 1)) \
                    > 10 * tol:
                fail("E(delta) scan of the k-fit is not the k=1 scan times "
                     "k^-p (deep half of the scan)")
            if fk["optimal_fit_delta"] != f1["optimal_fit_delta"]:
                # the (discontinuous) plateau selection picked another
                # plateau although the scans agree: not a scaling error
                run.count("plateau-selection-flip")
                return
        # a final range without (at least three) points in contact under the
        # fitted contact point does not determine the modulus at all: any E
        # has the same residuals, the two optimisations may stop anywhere
        def in_contact(ii, pf):
            rg = np.asarray(ii["fit range"]).astype(bool)
            xx = np.asarray(ii["tip position"])[rg]
            return int(np.sum(xx < pf["contact_point"].value))
        if min(in_contact(ik, pfk), in_contact(i1, pf1)) < 3:
            run.count("final-range-without-contact(modulus-undetermined)")
            if abs(pfk["contact_point"].value - pf1["contact_point"].value) \
                    > tol * float(np.ptp(cols["tip position"])):
                fail("reported contact point differs between k and 1")
            return
        Ek, E1 = pfk["E"].value, pf1["E"].value
        rel = abs(Ek / (E1 * k ** (-p)) - 1)
        span = float(np.ptp(cols["tip position"]))
        if rel > tol:
            fail(f"E_k / (E_1 k^-p) - 1 = {rel:.3e}")
        if abs(pfk["contact_point"].value - pf1["contact_point"].value) \
                > tol * span:
            fail("reported contact point differs between k and 1")
        fmax = float(np.max(np.abs(cols["force"])))
        if abs(pfk["baseline"].value - pf1["baseline"].value) > tol * fmax:
            fail("reported baseline differs between k and 1")
        a, b = np.asarray(ik["fit"]), np.asarray(i1["fit"])
        m = ~np.isnan(a) & ~np.isnan(b)
        if not np.array_equal(np.isnan(a), np.isnan(b)) or \
                np.max(np.abs(a[m] - b[m])) > 10 * tol * fmax:
            fail("fitted curve differs between k and 1 (NaN pattern equal: "
                 f"{np.array_equal(np.isnan(a), np.isnan(b))}, max diff "
                 f"{np.max(np.abs(a[m] - b[m])) if m.any() else None}, "
                 f"fmax {fmax})")
        if rtype == "relative cp" and not noise:
            # (noise-free: both fits select the same points)
            step = span / 150
            if abs(fk["xmin"] - f1["xmin"]) > 1.5 * step or \
                    abs(fk["xmax"] - f1["xmax"]) > 1.5 * step:
                fail(f"xmin/xmax {fk['xmin']!r}/{fk['xmax']!r} with k = {k}, "
                     f"{f1['xmin']!r}/{f1['xmax']!r} with k = 1",
                     "C11_unscale")
            rgk = np.asarray(ik["fit range"]).astype(bool)
            xk_ = np.asarray(ik["tip position"])[rgk]
            if rgk.any() and not (
                    math.isclose(fk["xmin"], float(xk_.min()), rel_tol=1e-12)
                    and math.isclose(fk["xmax"], float(xk_.max()),
                                     rel_tol=1e-12)):
                fail(f"xmin/xmax {fk['xmin']!r}/{fk['xmax']!r} are not the "
                     f"extremes {float(xk_.min())!r}/{float(xk_.max())!r} of "
                     "the points in 'fit range' (measured units)",
                     "C11_unscale")
        if rtype == "absolute":
            if not (math.isclose(fk["xmin"], f1["xmin"], rel_tol=1e-15,
                                 abs_tol=0)
                    and math.isclose(fk["xmax"], f1["xmax"], rel_tol=1e-15,
                                     abs_tol=0)):
                fail("xmin/xmax differ between k and 1", "C11_unscale")
            if not np.array_equal(ck[0]["x"], c1[0]["x"] * k):
                fail("the optimiser was not given k * abscissa")


def failed_then_refit_cases(run):
    """a fit that cannot be performed (too few points in the range) followed
    by a fit that only changes the range and relies on the stored initial
    parameters: the stored contact point guess stays in measured units and
    the second fit corresponds to the k = 1 fit"""
    from nanite import model
    for t, (mk, k) in enumerate([("hertz_para", 0.5), ("hertz_cone", 2.0),
                                 ("hertz_pyr3s", 0.7)]):
        pw = fits.POWER[mk]
        true = fits.default_params(mk, contact_point=8e-7, E=3000.0,
                                   baseline=2e-11)
        cols = fits.model_curve(mk, true, n_app=150, n_ret=70)
        span = float(np.ptp(cols["tip position"]))
        out = {}
        cfg = {"failed-then-refit": mk, "k": k}
        key = f"failed-refit:{mk}:{k}"
        run.case(cfg, kind="failed-then-refit")
        try:
            for kk in (k, 1.0):
                idnt = curves.make_indentation(cols)
                p = model.models_available[mk].get_parameter_defaults()
                p["contact_point"].set(value=9e-7)
                p["E"].set(value=2000.0 * kk ** (-pw))
                with warnings.catch_warnings():
                    warnings.simplefilter("ignore")
                    idnt.fit_model(model_key=mk, params_initial=p, gcf_k=kk,
                                   range_type="relative cp",
                                   range_x=[1e-3, 2e-3], weight_cp=0)
                    g1 = float(idnt.fit_properties["params_initial"][
                        "contact_point"].value)
                    idnt.fit_model(range_type="absolute", range_x=[0, 0])
                out[kk] = (idnt, g1)
        except BaseException as e:
            run.failing(SITE, key, f"{cfg}: raised {type(e).__name__}: {e}",
                        payload={"kind": "rerun"})
            continue
        (ik, gk), (i1, g1) = out[k], out[1.0]
        why = None
        if gk != 9e-7:
            why = (f"after a fit that could not be performed the stored "
                   f"initial contact point is {gk!r}, the caller gave 9e-07 "
                   f"(k = {k})")
        elif not (ik.fit_properties.get("success")
                  and i1.fit_properties.get("success")):
            why = "the second fit is not successful"
        else:
            pk, p1 = (ik.fit_properties["params_fitted"],
                      i1.fit_properties["params_fitted"])
            rel = abs(pk["E"].value / (p1["E"].value * k ** (-pw)) - 1)
            dcp = abs(pk["contact_point"].value
                      - p1["contact_point"].value) / span
            if rel > 1e-6 or dcp > 1e-6:
                why = (f"second fit: E_k / (E_1 k^-p) - 1 = {rel:.2e}, "
                       f"contact points differ by {dcp:.2e} of the span")
        if why:
            run.failing(SITE, key, f"{cfg}: {why}", payload={"kind": "rerun"},
                        theorem="C11 (initial guess in measured units for "
                        "every pass)")


def fitter_reuse_cases(run):
    """one IndentationFitter object fitted, its correction factor changed,
    fitted again: every fit equals that of a fresh fitter with the same
    settings"""
    from nanite import model
    from nanite.fit import IndentationFitter
    for mk in ("hertz_para", "hertz_cone"):
        true = fits.default_params(mk, contact_point=8e-7, E=3000.0,
                                   baseline=2e-11)
        cols = fits.model_curve(mk, true, n_app=150, n_ret=70)
        span = float(np.ptp(cols["tip position"]))
        for rtype, rx in (("absolute", [-1.5e-6, 2e-6]),
                          ("relative cp", [-1.5e-6, 1e-6])):
            cfg = {"fitter-reuse": mk, "range_type": rtype}
            key = f"fitter-reuse:{mk}:{rtype}"
            run.case(cfg, kind="fitter-reuse")
            try:
                idnt = curves.make_indentation(cols)
                p = model.models_available[mk].get_parameter_defaults()
                p["contact_point"].set(value=9e-7)
                kw = dict(model_key=mk, params_initial=p, range_type=rtype,
                          range_x=rx, weight_cp=0)
                why = None
                with warnings.catch_warnings():
                    warnings.simplefilter("ignore")
                    reused = IndentationFitter(idnt, gcf_k=1.0, **kw)
                    reused.fit()
                    for k in (0.5, 2.0, 0.5):
                        reused.fp["gcf_k"] = k
                        reused.fit()
                        fresh = IndentationFitter(
                            curves.make_indentation(cols), gcf_k=k, **kw)
                        fresh.fit()
                        a, b = reused.fp, fresh.fp
                        if bool(a.get("success")) != bool(b.get("success")):
                            why = (f"k = {k}: success {a.get('success')} vs "
                                   f"{b.get('success')} for a fresh fitter")
                            break
                        if not a.get("success"):
                            continue
                        pa, pb = a["params_fitted"], b["params_fitted"]
                        dE = abs(pa["E"].value / pb["E"].value - 1)
                        dc = abs(pa["contact_point"].value
                                 - pb["contact_point"].value) / span
                        if dE > 1e-6 or dc > 1e-6 or a["xmin"] != b["xmin"] \
                                or a["xmax"] != b["xmax"]:
                            why = (f"k = {k}: reused fitter gives E "
                                   f"{pa['E'].value!r}, cp "
                                   f"{pa['contact_point'].value!r}, xmin/xmax"
                                   f" {a['xmin']!r}/{a['xmax']!r}; a fresh "
                                   f"fitter E {pb['E'].value!r}, cp "
                                   f"{pb['contact_point'].value!r}, "
                                   f"{b['xmin']!r}/{b['xmax']!r}")
                            break
            except BaseException as e:
                why = f"raised {type(e).__name__}: {e}"
            if why:
                run.failing(SITE, key, f"{cfg}: {why}",
                            payload={"kind": "rerun"}, theorem="C11_unscale")


def library_guess_cases(run):
    """fits that leave the initial parameters to the library, on curves whose
    contact point is far from zero (no tip-offset correction), k vs 1: same
    contact point and baseline, modulus scaled by k^-p"""
    from nanite import model
    for mk, pexp in (("hertz_para", 1.5), ("hertz_cone", 2.0),
                     ("hertz_pyr3s", 2.0)):
        for cp in (1.8e-5, -1.2e-5):
            true = fits.default_params(mk, contact_point=cp, E=5000.0,
                                       baseline=0.0)
            cols = fits.model_curve(mk, true, n_app=200, n_ret=80,
                                    z0=cp + 4e-6, z1=cp - 2e-6)
            x = np.asarray(cols["tip position"], float)
            span = float(np.ptp(x))
            ref = None
            for k in (1.0, 0.9, 0.5, 2.0, 0.25):
                cfg = {"library-guess": mk, "contact_point": cp, "k": k}
                key = f"library-guess:{mk}:{cp}:{k}"
                run.case(cfg, kind="library-guess")
                try:
                    md = model.models_available[mk]
                    vals = md.get_parameter_defaults()
                    for n_ in vals:
                        if n_ in true:
                            vals[n_].set(value=true[n_])
                    vd = vals.valuesdict()
                    vd["contact_point"] = cp * k
                    c2 = dict(cols)
                    c2["force"] = md.module.model_func(x * k, **vd)
                    c2["height (measured)"] = x - c2["force"] / .05
                    idnt = curves.make_indentation(c2)
                    with warnings.catch_warnings():
                        warnings.simplefilter("ignore")
                        idnt.fit_model(model_key=mk, gcf_k=k, weight_cp=0,
                                       preprocessing=["compute_tip_position"])
                    fp = idnt.fit_properties
                    why = None
                    if not fp.get("success"):
                        why = "fit reports success False"
                    else:
                        pf = fp["params_fitted"]
                        got = (pf["E"].value, pf["contact_point"].value,
                               pf["baseline"].value)
                        # ... and the same with a contact-point-relative
                        # interval: the fitted curve is the data
                        i2 = curves.make_indentation(c2)
                        with warnings.catch_warnings():
                            warnings.simplefilter("ignore")
                            i2.fit_model(model_key=mk, gcf_k=k, weight_cp=0,
                                         preprocessing=["compute_tip_position"],
                                         range_type="relative cp",
                                         range_x=[-1.5e-6, 2e-6])
                        seg_ = np.asarray(i2["segment"]) == 0
                        fmax_ = float(np.max(np.abs(c2["force"])))
                        dev_ = float(np.nanmax(np.abs(
                            np.asarray(i2["fit"])[seg_]
                            - np.asarray(c2["force"])[seg_]))) \
                            if i2.fit_properties.get("success") else np.inf
                        if abs(got[1] - cp) > 1e-5 * span:
                            why = (f"contact point {got[1]!r}, the curve's "
                                   f"is {cp!r} (measured units)")
                        elif dev_ > 1e-5 * fmax_:
                            why = (f"relative interval: the fitted curve "
                                   f"deviates from the (exact) data by "
                                   f"{dev_ / fmax_:.2e} of the maximal force")
                        elif abs(got[0] / true["E"] - 1) > 1e-4:
                            why = (f"modulus {got[0]!r}, generated with "
                                   f"{true['E']!r} and k = {k}")
                except BaseException as e:
                    why = f"raised {type(e).__name__}: {e}"
                if why:
                    run.failing(SITE, key, f"{cfg}: {why}",
                                payload={"kind": "rerun"},
                                theorem="C11_objective_equiv_*")


def curve_history_cases(run):
    """one curve fitted with a correction factor, then only the factor is
    changed (through fit_model and through the stored settings) and the curve
    fitted again: modulus, contact point and interval are those of a fresh
    curve fitted with that factor (for every exponent)"""
    from nanite import model
    for mk in ("hertz_para", "hertz_cone", "hertz_pyr3s",
               "sneddon_spher_approx"):
        true = fits.default_params(mk, contact_point=2e-7, E=4000.0,
                                   baseline=1e-11)
        cols = fits.model_curve(mk, true, n_app=150, n_ret=70)
        span = float(np.ptp(cols["tip position"]))
        for via in ("fit_model", "setting"):
            cfg = {"curve-history": mk, "via": via}
            key = f"curve-history:{mk}:{via}"
            run.case(cfg, kind="curve-history")
            why = None
            try:
                with warnings.catch_warnings():
                    warnings.simplefilter("ignore")
                    p = model.models_available[mk].get_parameter_defaults()
                    p["contact_point"].set(value=2.5e-7)
                    kw = dict(model_key=mk, params_initial=p, weight_cp=0,
                              range_x=[-1.5e-6, 1e-6])
                    idnt = curves.make_indentation(cols)
                    idnt.fit_model(gcf_k=1.0, **copy.deepcopy(kw))
                    for k in (0.5, 2.0, 1.0, 0.25):
                        if via == "fit_model":
                            idnt.fit_model(gcf_k=k)
                        else:
                            idnt.fit_properties["gcf_k"] = k
                            idnt.fit_model()
                        fresh = curves.make_indentation(cols)
                        fresh.fit_model(gcf_k=k, **copy.deepcopy(kw))
                        a, b = idnt.fit_properties, fresh.fit_properties
                        if not (a.get("success") and b.get("success")):
                            why = (f"k = {k}: success {a.get('success')} / "
                                   f"{b.get('success')}")
                            break
                        pa, pb = a["params_fitted"], b["params_fitted"]
                        dE = abs(pa["E"].value / pb["E"].value - 1)
                        dc = abs(pa["contact_point"].value
                                 - pb["contact_point"].value) / span
                        if dE > 1e-6 or dc > 1e-6 or a["hash"] != b["hash"]:
                            why = (f"after changing only the factor to {k} "
                                   f"the curve reports E {pa['E'].value!r} "
                                   f"(hash {a['hash'][:8]}), a fresh curve "
                                   f"fitted with that factor "
                                   f"{pb['E'].value!r} (hash "
                                   f"{b['hash'][:8]})")
                            break
            except BaseException as e:
                why = f"raised {type(e).__name__}: {e}"
            if why:
                run.failing(SITE, key, f"{cfg}: {why}",
                            payload={"kind": "rerun"},
                            theorem="C11_objective_equiv_*")


def check(run):
    run.sources = common.source_digests(["src/nanite/fit.py"])
    try:
        gen_all.generate_all()
        models, trw = gen_formulas.translate_all()
        worst = gen_formulas.self_check(models, trw, n=100, seed=run.seed)
        run.obligation("translator-self-check",
                       all(v <= 64 for v in worst.values()), str(worst))
    except gen_formulas.TranslationError as e:
        run.obligation("translation", False, str(e))
    common.prove(run, "C11")
    run.trusted = [
        "Coq 8.16.1 kernel; Reals axioms",
        "tools/nv/gen_formulas.py (formula bodies translated per run)",
        "lmfit.minimize wrapped from the harness to observe what every "
        "optimisation pass is started from",
    ]
    run.assumptions = [
        "the optimiser converges to the corresponding minimiser of the "
        "equivalent problem (explored by metamorphic fits, not proved)",
        "with weighting on, equivalence needs the width in scaled units: the "
        "property itself restricts the exact claim to weighting off / "
        "noise-free data",
    ]
    rng = run.rng
    n = 40 if run.tier == "quick" else 400
    for i in range(n):
        mk = ["hertz_para", "hertz_cone", "hertz_pyr3s"][i % 3]
        p = fits.POWER[mk]
        k = rng.choice([0.1, 0.23, 0.5, 0.3183098861837907, 0.6, 2.0, 1.5])
        segment = rng.choice([0, 0, 1])
        # deterministic cycle: every (model, range type) pair is covered
        rng.choice([0, 1])
        rtype = ["absolute", "relative cp", "plateau", "absolute"][(i // 3) % 4]
        if rtype == "plateau":
            # the plateau search refuses retract segments unconditionally
            # ("Unexpected trend in retract curve!"): approach only
            segment = 0
        noise = rng.choice([0.0, 0.0, 2e-3])      # relative to max force
        if rtype == "plateau":
            # the final range of a plateau search can leave few points in
            # contact; with noise the (equivalent) optimisations then stop at
            # visibly different points of a flat valley: noise-free only
            noise = 0.0
        # with weighting on the two objectives are not equivalent (the width
        # is not rescaled): only the global minimiser of noise-free data
        # coincides, so weighting is combined with single-pass fits only
        weight = 0 if (noise or rtype != "absolute") else rng.choice([0, 1e-6])
        cp_true = rng.uniform(-3e-7, 3e-7)
        E_true = 10 ** rng.uniform(2.5, 4)
        true = fits.default_params(mk, contact_point=cp_true, E=E_true,
                                   baseline=rng.uniform(-1e-10, 1e-10))
        rx = {"absolute": rng.choice([[0, 0], [-1.5e-6, 2e-6]]),
              "relative cp": [-1.5e-6, 1e-6], "plateau": [0, 2e-6]}[rtype]
        cp0 = cp_true + rng.uniform(-1.5e-7, 1.5e-7)
        E0 = None
        if weight:
            # weighting on: the k-objective has other local minima than the
            # k=1 objective; start both inside the basin of the truth
            cp0 = cp_true + rng.uniform(-1e-8, 1e-8)
            E0 = E_true * rng.uniform(0.8, 1.25)
        fix_cp = (i % 5 == 4) and rtype != "plateau"
        if fix_cp:
            cp0 = cp_true
        cp_bounds = None
        if i % 7 == 3 and rtype != "plateau" and not fix_cp:
            # the user limits the contact point (measured units); the limits
            # hold the true contact point in measured and in corrected units
            cpb = 2.5e-7 if cp_true >= 0 else -2.5e-7
            true = dict(true, contact_point=cpb)
            cp0 = cpb * (1 + rng.uniform(-0.05, 0.05))
            cp_bounds = [min(cpb, k * cpb) - 0.1 * abs(cpb),
                         max(cpb, k * cpb) + 0.1 * abs(cpb)]
            noise = 0.0
        cfg = {"model": mk, "k": k, "segment": segment, "range_type": rtype,
               "range_x": list(rx), "noise": noise, "weight_cp": weight,
               "cp0": cp0, "seed": i, "true": true, "E0": E0,
               "fix_cp": fix_cp, "cp_bounds": cp_bounds}
        one_case(run, cfg)
    failed_then_refit_cases(run)
    fitter_reuse_cases(run)
    curve_history_cases(run)
    library_guess_cases(run)
    run.rule = ("metamorphic fits k vs 1 on synthetic power-law curves "
                "(noise-free: 1e-6; noisy with weighting off: 5e-3) x three "
                "range types x segments x initial contact points; every "
                "optimisation pass observed at entry; distinct by config")


def replay(rec):
    """re-run the k / 1 pair of a recorded configuration"""
    pl = rec.get("payload") or {}
    cfg = pl.get("cfg")
    if not cfg or "true" not in cfg:
        return common.replay_by_rerun(sys.modules[__name__], rec)

    class R:
        bad = False

        def failing(self, *a, **k):
            R.bad = True
            return True

        def case(self, *a, **k):
            pass

        def count(self, *a, **k):
            pass
    one_case(R(), cfg)
    return not R.bad
