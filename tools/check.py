"""./check <ID> [--tier quick|thorough] [--replay FILE]"""
import argparse
import importlib
import json
import os
import sys
import traceback

from nv import common


def main():
    ap = argparse.ArgumentParser()
    ap.add_argument("pid")
    ap.add_argument("--tier", default=os.environ.get("VERIF_TIER", "quick"),
                    choices=["quick", "thorough"])
    ap.add_argument("--replay", default=None)
    args = ap.parse_args()
    seed = int(os.environ.get("VERIF_SEED", "20260926"))
    pid = args.pid.upper()
    mod = importlib.import_module(f"nv.props.{pid.lower()}")
    if args.replay:
        rec = json.loads(open(args.replay).read())
        ok = mod.replay(rec)
        print("replay:", "property holds on this input" if ok
              else "property FAILS on this input")
        sys.exit(0 if ok else 1)
    run = common.Run(pid, args.tier, seed)
    try:
        mod.check(run)
    except BaseException as e:  # the harness itself broke: fail closed
        if isinstance(e, KeyboardInterrupt):
            raise
        tb = traceback.format_exc()
        run.obligation("harness-completed", False, tb)
    sys.exit(run.finish())


if __name__ == "__main__":
    main()
