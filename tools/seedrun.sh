#!/bin/bash
# usage: tools/seedrun.sh <patch.diff> <ID> [tier]   -- apply a seeded change to /repo, run the
# check, undo the change, restore committed evidence; prints the verdict.  Development aid only.
set -u
patch=$1; id=$2; tier=${3:-quick}
cd /verif
if ! git -C /repo diff --quiet; then echo "/repo not clean"; exit 2; fi
git -C /repo apply "$patch" || { echo "patch does not apply"; exit 2; }
log=$(mktemp /tmp/seedrun.XXXXXX)
timeout 1500 ./check $id --tier $tier > $log 2>&1; rc=$?
git -C /repo checkout -- .
nviol=$(grep -c '^VIOLATION' $log)
echo "== $id $(basename $(dirname $patch)) exit=$rc violations=$nviol"
grep -E "^VIOLATION|^\[C[0-9]+\] " $log | cut -c1-300 | head -8
# restore evidence + drop replays written by this run
git checkout -- evidence 2>/dev/null
git clean -fdq replays 2>/dev/null
cp $log /tmp/seedrun-last-$id.log; rm -f $log
exit $rc
